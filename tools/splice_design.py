#!/usr/bin/env python3
# Splices tools/design_section0.md (with the seed table generated from seeded/*/meta.json) into DESIGN.md.
import json, glob, os, re
root = '/verif'
sec = open(root + '/tools/design_section0.md').read()
rows = ["| seed | property | change (one line) | needs | caught by (first obligations) | result |", "|---|---|---|---|---|---|"]
for m in sorted(glob.glob(root + '/seeded/*/meta.json')):
    d = json.load(open(m))
    sid = os.path.basename(os.path.dirname(m))
    rows.append("| %s | %s | %s | %s | %s | %s |" % (sid, d.get('property', ''), d.get('change', '').replace('|', '/'), d.get('needs_to_manifest', '').replace('|', '/'),
                                                   str(d.get('caught_by', '')).replace('|', '/'), d.get('result', 'detected')))
sec = sec.replace('SEED-TABLE', '\n'.join(rows))
p = root + '/DESIGN.md'
s = open(p).read()
if '<!-- SECTION0-BEGIN' in s:
    s = re.sub(r'<!-- SECTION0-BEGIN.*?<!-- SECTION0-END -->\n', lambda _: sec, s, flags=re.S)
else:
    old = s[s.index("Status: design only (round 0)."):s.index("Contents\n")]
    s = s.replace(old, "Status: sections 1-9 and the appendices were written before any code (round 0) and are\nkept as the design rationale. **Section 0 below records what was actually built, where it\ndeparts from the plan, what was found, and what is claimed; where section 0 and a later\nsection disagree, section 0 is right.**\n\n")
    marker = "---------------------------------------------------------------------------------------------\n"
    i = s.index(marker)
    s = s[:i] + sec + "\n" + s[i:]
open(p, 'w').write(s)
print("DESIGN.md section 0 spliced;", len(rows) - 2, "seeds")
