#!/bin/bash
# thorough tier of one property: (1) the check with every solver run to completion on every
# obligation (120 s each, disagreement between solvers is reported), (2) the must-fail corpus of that
# property (seeded changes and reversed fixes, each in a scratch worktree): a check that no longer
# notices them is broken, which is reported as exit 3 - never as a VIOLATION of the property.
P=$1
/verif/bin/govc check --property "$P" --tier thorough; rc=$?
[ $rc -ne 0 ] && exit $rc
/verif/tools/selftest.sh "$P" > /verif/out/selftest-$P.log 2>&1; st=$?
grep -E "^SELFTEST" /verif/out/selftest-$P.log
if [ $st -ne 0 ]; then echo "selftest of $P failed: the check missed a change it must detect (see /verif/out/selftest-$P.log)" >&2; exit 3; fi
exit 0
