#!/usr/bin/env python3
"""Regenerates /verif/MANIFEST.json from tools/claims.json (per-property texts) so that
the manifest stays valid and in sync with what the checks do."""
import json, os, subprocess
V = '/verif'
TC = '/root/go/pkg/mod/golang.org/toolchain@v0.0.1-go1.25.0.linux-amd64/bin'
ENV = f'PATH={TC}:$PATH GOTOOLCHAIN=local GOFLAGS=-mod=mod GOPROXY=off GOSUMDB=off'
claims = json.load(open(f'{V}/tools/claims.json'))
repo_commits = subprocess.run(['git','-C','/repo','log','--format=%H %s'],capture_output=True,text=True).stdout.strip().split('\n')
hooks = [l.split()[0] for l in repo_commits if ' verif:' in ' '+l]
checks, na = [], []
for pid in [f'C{i:02d}' for i in range(1, 21)]:
    c = claims.get(pid)
    if not c:
        continue
    if c.get('not_applicable'):
        na.append({'property_id': pid, 'reason': c['not_applicable']})
        continue
    checks.append({
        'property_id': pid,
        'quick_cmd': f'/verif/bin/govc check --property {pid} --tier quick',
        'thorough_cmd': f'/verif/tools/thorough.sh {pid}',
        'evidence_file': f'/verif/evidence/{pid}.json',
        'replay_cmd_template': '/verif/bin/govc replay {path}',
        'engine': 'govc',
        'level_claimed': {'category': c['level'], 'text': c['text'], 'design_ref': c.get('design_ref', 'DESIGN.md section 4')},
        'level_note': c['note'],
        'technique': c['technique'],
    })
m = {
    'version': 1,
    'setup_cmd': f'cd /verif/govc && {ENV} go build -o /verif/bin/govc .',
    'hooks': {
        'guard': 'verif',
        'enable': '-tags verif (the contract files contracts_verif.go are comment-only; govc loads /repo with this tag and type-checks the clause functions it generates from them in a go/packages overlay)',
        'baseline_off_cmd': f'cd /repo && {ENV} go test -json -vet=off -count=1 -timeout 25m ./...',
        'source_commits': hooks,
        'add_only': True,
    },
    'engines': [{'name': 'govc', 'path': '/verif/govc', 'serves_properties': [c['property_id'] for c in checks],
                 'kind_free_text': 'verification-condition generator over go/ssa for contracts written as //@ comments; obligations discharged by z3 4.8.12 / z3 5.1.0 / cvc5 1.0.3 raced per obligation'}],
    'checks': checks,
    'not_applicable': na,
    'notes': 'See DESIGN.md. obligations.lock lists what discharges on the unchanged tree; KNOWN_FINDINGS.txt lists recorded defects.',
}
json.dump(m, open(f'{V}/MANIFEST.json', 'w'), indent=1)
print('checks:', [c['property_id'] for c in checks], 'n/a:', [x['property_id'] for x in na])
