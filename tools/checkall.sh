#!/bin/bash
# runs the quick check of every claimed property on the current tree; prints one line per property
for P in $(python3 -c "import json;print(' '.join(k for k,v in sorted(json.load(open('/verif/tools/claims.json')).items()) if 'level' in v))"); do
  /verif/bin/govc check --property $P --tier ${1:-quick} 2>&1 | tail -1; echo "  exit=$?"
done
