#!/bin/bash
# usage: tryseeds.sh ID1 ID2 ...   (ID = directory under seeded/; the property is the first three characters)
for ID in "$@"; do
  P=${ID:0:3}
  echo "== $ID ($P)"; /verif/tools/tryseed.sh $P /verif/seeded/$ID/patch.diff 2>&1 | tail -5 | cut -c1-260
done
