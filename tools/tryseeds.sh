#!/bin/bash
# usage: tryseeds.sh P1 P2 ...   -- runs tryseed.sh for each seeded/<P>/patch.diff in turn, summary to out/tryseeds.log
for P in "$@"; do
  echo "== $P"; /verif/tools/tryseed.sh $P /verif/seeded/$P/patch.diff 2>&1 | tail -6 | cut -c1-260
done
