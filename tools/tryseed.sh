#!/bin/bash
# usage: tryseed.sh <property> <patch.diff>   -- applies the patch to /repo, runs the quick check, reverts
P=$1; PATCH=$2
cd /repo || exit 2
if [ -n "$(git status --porcelain)" ]; then echo "refusing: /repo has uncommitted changes (they would be lost by the cleanup)"; exit 2; fi
git apply --check "$PATCH" || { echo "patch does not apply"; exit 2; }
git apply "$PATCH"
GOVC_NO_EVIDENCE=1 /verif/bin/govc check --property $P > /tmp/tryseed_$P.log 2>&1; rc=$?
git checkout -- . 
echo "exit=$rc"; grep -E "VIOLATION|KNOWN|property" /tmp/tryseed_$P.log | head -8
