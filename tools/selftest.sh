#!/bin/bash
# Must-fail / must-pass self-test of the checks (run by the thorough tier and by hand).
#   selftest.sh [Cnn ...]     -- without arguments: every corpus entry
# Corpus: every seeded change under /verif/seeded/<id>/ (meta.json names the property),
# and the reverse of every fix commit listed in KNOWN_FINDINGS.txt.  Each entry is applied
# in a scratch worktree outside /repo and /verif (removed afterwards); the property's check
# must exit 1 with a VIOLATION line on it.  The unchanged tree must exit 0 (that is the check itself).
export PATH=/root/go/pkg/mod/golang.org/toolchain@v0.0.1-go1.25.0.linux-amd64/bin:$PATH GOTOOLCHAIN=local GOFLAGS=-mod=mod GOPROXY=off GOSUMDB=off
WANT="$*"
fail=0; n=0
run() { # id property patch reverse
  local id=$1 prop=$2 patch=$3 rev=$4
  if [ -n "$WANT" ] && ! echo " $WANT " | grep -q " $prop "; then return; fi
  if [ -n "$SELFTEST_ONLY" ] && ! echo " $SELFTEST_ONLY " | grep -q " $id "; then return; fi
  local W; W=$(mktemp -d /tmp/govc-selftest-XXXXXX); rmdir "$W"
  git -C /repo worktree add --detach -q "$W" HEAD || { echo "SELFTEST-ERROR $id: cannot create worktree"; fail=1; return; }
  if ! (cd "$W" && git apply $rev "$patch" 2>/dev/null); then
     echo "SELFTEST-SKIP $id ($prop): patch no longer applies to the current tree"
  else
     n=$((n+1))
     out=$(GOVC_NO_EVIDENCE=1 GOVC_REPLAY_DIR="$W.replay" /verif/bin/govc check -repo "$W" --property "$prop" --tier quick 2>&1); rc=$?
     if [ $rc -eq 1 ] && echo "$out" | grep -q "^VIOLATION property=$prop"; then
        echo "SELFTEST-OK   $id ($prop): detected: $(echo "$out" | grep -m1 '^VIOLATION' | sed 's/.*replay=[^ ]*\///' | cut -c1-110)"
     else
        echo "SELFTEST-MISS $id ($prop): exit=$rc  $(echo "$out" | tail -1)"; fail=1
     fi
  fi
  git -C /repo worktree remove --force "$W"; rm -rf "$W.replay"
}
for m in /verif/seeded/*/meta.json; do
  d=$(dirname "$m"); id=$(basename "$d")
  prop=$(python3 -c "import json,sys;print(json.load(open('$m'))['property'])")
  run "seed-$id" "$prop" "$d/patch.diff" ""
done
# reverse of the fix commits: "fixed: property=Cnn <commit> ..."
while read -r _ p c _; do
  prop=${p#property=}
  git -C /repo show "$c" -- . ':!*contracts_verif.go' > "/tmp/govc-selftest-fix-$c.diff" 2>/dev/null
  run "unfix-$c" "$prop" "/tmp/govc-selftest-fix-$c.diff" "-R"
  rm -f "/tmp/govc-selftest-fix-$c.diff"
done < <(grep '^fixed:' /verif/KNOWN_FINDINGS.txt)
echo "selftest: $n entries run, fail=$fail"
exit $fail
