#!/bin/bash
# usage: confirmseed.sh <id> <seeddir> <pkgdir>  -- independently confirms a seeded change in a fresh scratch worktree:
#   existing tests of the package pass with the change, the demo fails with it and passes without it.
ID=$1; SD=$2; PKG=$3
export PATH=/root/go/pkg/mod/golang.org/toolchain@v0.0.1-go1.25.0.linux-amd64/bin:$PATH GOTOOLCHAIN=local GOFLAGS=-mod=mod GOPROXY=off GOSUMDB=off
W=/tmp/confirm_$ID; rm -rf $W
git -C /repo worktree add --detach -q $W HEAD || exit 2
cd $W
OUT=$SD/confirm.log; : > $OUT
git apply $SD/patch.diff || { echo "PATCH-FAILS" >> $OUT; exit 1; }
go build ./... >> $OUT 2>&1 && echo "BUILD-OK" >> $OUT
go test -count=1 -vet=off $PKG >> $OUT 2>&1 && echo "EXISTING-TESTS-PASS-WITH-CHANGE" >> $OUT
cp $SD/zz_seed_demo_test.go $W/$PKG/zz_seed_demo_test.go
if go test -count=1 -vet=off -run 'SeedDemo' $PKG >> $OUT 2>&1; then echo "DEMO-PASSES-WITH-CHANGE(bad)" >> $OUT; else echo "DEMO-FAILS-WITH-CHANGE" >> $OUT; fi
git checkout -- . 
if go test -count=1 -vet=off -run 'SeedDemo' $PKG >> $OUT 2>&1; then echo "DEMO-PASSES-WITHOUT-CHANGE" >> $OUT; else echo "DEMO-FAILS-WITHOUT-CHANGE(bad)" >> $OUT; fi
cd /; git -C /repo worktree remove --force $W
grep -E "^[A-Z-]+(\(bad\))?$" $OUT | tr '\n' ' '; echo
