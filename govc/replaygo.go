package main

// Executable replays: a refuted obligation's model is turned into an in-package Go
// test that builds the inputs, runs the real function and evaluates the violated
// contract clause on the concrete result.  The test is injected with
// `go test -overlay` (nothing is written into the repository).
//
// Supported: functions without type parameters whose inputs are built from
// integers, booleans, slices, arrays, structs and pointers to those; obligations
// that are `ensures` clauses (the clause is evaluated by the generated clause
// function with an executable prelude: quantifiers range over a finite candidate
// set, so only clauses whose universal quantifiers occur positively are accepted)
// and no-panic obligations (index, slice bounds, nil, division: the replay expects
// the real code to panic).  Everything else has no executable replay and is
// reported with `no-failing-input-found`.

import (
	"bytes"
	"encoding/json"
	"fmt"
	"go/ast"
	"go/parser"
	"go/printer"
	"go/token"
	"go/types"
	"math/big"
	"os"
	"os/exec"
	"path/filepath"
	"regexp"
	"sort"
	"strings"
	"time"
)

type goReplay struct {
	repo, verif string
}

func (g *goReplay) run(rec map[string]interface{}) bool {
	out, failed := runGoReplay(g.repo, g.verif, rec)
	rec["replay_output"] = out
	return failed
}

const rpPrelude = `
// ---- executable contract prelude (replay) ----
var _ = time.Now
var rpDomain []int64

func gcNow() time.Time { panic("govc-replay-unsupported: gcNow") }
func gcOld[T any](x T) T { return x }
func gcOldAt[T any](label string, x T) T { panic("govc-replay-unsupported: oldat") }
func gcIte[T any](c bool, a, b T) T { if c { return a }; return b }
func gcImplies(a, b bool) bool { return !a || b }
func rpEach[T any](f func(T) bool, all bool) bool {
	var z T
	try := func(v int64) (stop bool) {
		var x any
		switch any(z).(type) {
		case int: x = int(v)
		case int8: x = int8(v)
		case int16: x = int16(v)
		case int32: x = int32(v)
		case int64: x = int64(v)
		case uint: x = uint(v)
		case uint8: x = uint8(v)
		case uint16: x = uint16(v)
		case uint32: x = uint32(v)
		case uint64: x = uint64(v)
		case uintptr: x = uintptr(v)
		default: panic("govc-replay-unsupported: quantifier over a non-integer type")
		}
		return f(x.(T)) != all
	}
	for _, v := range rpDomain {
		if try(v) { return !all }
	}
	return all
}
func gcForall[T any](f func(T) bool) bool { return rpEach(f, true) }
func gcExists[T any](f func(T) bool) bool { return rpEach(f, false) }
func gcAllocated[T any](x T) bool { panic("govc-replay-unsupported: gcAllocated") }
func gcFresh[T any](x T) bool { panic("govc-replay-unsupported: gcFresh") }
func gcSameRef[T any](a, b T) bool { panic("govc-replay-unsupported: gcSameRef") }
func gcSliceAt[T any](a, b []T, lo int) bool { panic("govc-replay-unsupported: gcSliceAt") }
func gcTail[T any](ch chan T) int { panic("govc-replay-unsupported: channel ghost") }
func gcHead[T any](ch chan T) int { panic("govc-replay-unsupported: channel ghost") }
func gcAt[T any](ch chan T, pos int) T { panic("govc-replay-unsupported: channel ghost") }
func gcClosed[T any](ch chan T) bool { panic("govc-replay-unsupported: channel ghost") }
func gcAwaited[T any](ch chan T) bool { panic("govc-replay-unsupported: channel ghost") }
func gcCap[T any](ch chan T) int { return cap(ch) }
func gcChan[T any](ch chan T) any { return ch }
func gcCalls[F any](f F) int { panic("govc-replay-unsupported: callback ghost") }
func gcCalledWith[F any, A any](f F, a A) int { panic("govc-replay-unsupported: callback ghost") }
func gcCallbacks(f any) any { return f }
func gcFst[A, B any](a A, b B) A { return a }
func gcSnd[A, B any](a A, b B) B { return b }
func gcSum[K comparable](m map[K]int64) int64 { var s int64; for _, v := range m { s += v }; return s }
func gcCard[K comparable, V any](m map[K]V) int { return len(m) }
func gcHas[K comparable, V any](m map[K]V, k K) bool { _, ok := m[k]; return ok }
func gcSameArray[T any](a, b []T) bool { panic("govc-replay-unsupported: gcSameArray") }
func gcSameStorage[T any](a, b []T) bool { panic("govc-replay-unsupported: gcSameStorage") }
func gcWithin[T any](a, b []T) bool { panic("govc-replay-unsupported: gcWithin") }
func gcU64(b []byte) []uint64 { panic("govc-replay-unsupported: gcU64") }
func gcWfSlice[T any](a []T) bool { return true }
`

var reScriptPath = regexp.MustCompile(`script: (\S+)`)

// ---- model queries ------------------------------------------------------------------

type rpModel struct {
	base   string // script without check-sat / get-value
	decl   map[string]bool
	extra  []string // declarations and pinned facts added so far
	log    []string
	solver string
}

func newRpModel(script string, qf bool) *rpModel {
	if qf {
		script = qfVariant(script)
		script = strings.Replace(script, "(check-sat-using", "; (check-sat-using", 1)
	}
	var keep []string
	decl := map[string]bool{}
	for _, l := range strings.Split(script, "\n") {
		if strings.HasPrefix(l, "(check-sat") || strings.HasPrefix(l, "(get-value") || strings.HasPrefix(l, "(get-model") {
			continue
		}
		if strings.HasPrefix(l, "(declare-const ") || strings.HasPrefix(l, "(declare-fun ") {
			rest := l[strings.Index(l, " ")+1:]
			var sym string
			if strings.HasPrefix(rest, "|") {
				sym = rest[:strings.Index(rest[1:], "|")+2]
			} else {
				sym = rest[:strings.IndexAny(rest, " )")]
			}
			decl[sym] = true
		}
		keep = append(keep, l)
	}
	return &rpModel{base: strings.Join(keep, "\n"), decl: decl}
}

func (m *rpModel) declare(sym, sort string) {
	if !m.decl[sym] {
		m.decl[sym] = true
		m.extra = append(m.extra, fmt.Sprintf("(declare-const %s %s)", sym, sort))
	}
}

// get evaluates terms in a model of the script plus everything pinned so far, and
// pins the answers so that later queries see the same model.
func (m *rpModel) get(terms []string, tryAsserts ...string) ([]string, bool) {
	if len(terms) == 0 {
		return nil, true
	}
	dir, _ := os.MkdirTemp("", "govc-rp")
	defer os.RemoveAll(dir)
	f := filepath.Join(dir, "q.smt2")
	src := m.base + "\n" + strings.Join(m.extra, "\n") + "\n" + strings.Join(tryAsserts, "\n") + "\n(check-sat)\n(get-value (" + strings.Join(terms, " ") + "))\n"
	os.WriteFile(f, []byte(src), 0o644)
	var s string
	for _, cmd := range [][]string{{"z3-new", "-T:30", f}, {"cvc5", "--tlimit=30000", "--produce-models", f}, {"z3", "-T:30", f}} {
		if m.solver != "" && cmd[0] != m.solver {
			continue // stay with the solver whose model the pinned values came from
		}
		out, _ := exec.Command(cmd[0], cmd[1:]...).CombinedOutput()
		s = string(out)
		if strings.HasPrefix(strings.TrimSpace(s), "sat") {
			m.solver = cmd[0]
			break
		}
	}
	if !strings.HasPrefix(strings.TrimSpace(s), "sat") {
		m.log = append(m.log, "query not sat: "+firstLines(s, 2))
		if d := os.Getenv("GOVC_DEBUG_RP"); d != "" {
			os.WriteFile(d, []byte(src), 0o644)
		}
		return nil, false
	}
	body := strings.TrimSpace(s[strings.Index(s, "sat")+3:])
	root := parseSx(body)
	if root == nil || len(root.kids) != len(terms) {
		m.log = append(m.log, "could not parse get-value output: "+firstLines(body, 2))
		return nil, false
	}
	vals := make([]string, len(terms))
	for i, k := range root.kids {
		if len(k.kids) != 2 {
			return nil, false
		}
		vals[i] = body[k.kids[1].s:k.kids[1].e]
		if !strings.Contains(vals[i], "lambda") && !strings.Contains(vals[i], "as-array") && !strings.Contains(vals[i], "as const") && !strings.Contains(vals[i], "store") {
			m.extra = append(m.extra, fmt.Sprintf("(assert (= %s %s))", terms[i], vals[i]))
		}
	}
	m.extra = append(m.extra, tryAsserts...)
	return vals, true
}

func smtInt(v string) (*big.Int, bool) {
	v = strings.TrimSpace(v)
	switch {
	case strings.HasPrefix(v, "#x"):
		n, ok := new(big.Int).SetString(v[2:], 16)
		return n, ok
	case strings.HasPrefix(v, "#b"):
		n, ok := new(big.Int).SetString(v[2:], 2)
		return n, ok
	case strings.HasPrefix(v, "(_ bv"):
		f := strings.Fields(v[5:])
		n, ok := new(big.Int).SetString(f[0], 10)
		return n, ok
	case strings.HasPrefix(v, "(- "):
		n, ok := new(big.Int).SetString(strings.TrimSuffix(strings.TrimSpace(v[3:]), ")"), 10)
		if ok {
			n.Neg(n)
		}
		return n, ok
	}
	n, ok := new(big.Int).SetString(v, 10)
	return n, ok
}

// ---- building Go values from the model --------------------------------------------

type rpBuilder struct {
	e      *Engine
	m      *rpModel
	pkg    *types.Package
	stmts  []string
	ptrs   map[string]string // typekey@ref -> variable
	backs  map[string]string // elem typekey@base -> backing variable
	filled map[string]bool
	n      int
	bad    string
	dom    map[int64]bool
}

const rpBackLen = 4096

func (b *rpBuilder) fail(f string, a ...interface{}) string {
	if b.bad == "" {
		b.bad = fmt.Sprintf(f, a...)
	}
	return "nil"
}

func (b *rpBuilder) qual(p *types.Package) string {
	if p == b.pkg {
		return ""
	}
	return p.Name()
}

func (b *rpBuilder) typeStr(t types.Type) string { return types.TypeString(t, b.qual) }

func (b *rpBuilder) note(v *big.Int) {
	if v.IsInt64() {
		x := v.Int64()
		for d := int64(-1); d <= 1; d++ {
			b.dom[x+d] = true
		}
	}
}

func entrySym(space byte, tk string, leaf int) string {
	if space == 'O' {
		return quoteSym(objHeapName(tk, leaf) + "@0")
	}
	return quoteSym(elemHeapName(tk, leaf) + "@0")
}

func foreignOpaque(t types.Type, pkg *types.Package) bool {
	n, ok := t.(*types.Named)
	if !ok || n.Obj().Pkg() == nil || n.Obj().Pkg() == pkg {
		return false
	}
	st, ok := n.Underlying().(*types.Struct)
	if !ok {
		return false
	}
	for i := 0; i < st.NumFields(); i++ {
		if !st.Field(i).Exported() {
			return true
		}
	}
	return false
}

// value returns a Go expression for the value of type t whose leaves are the given SMT terms.
func (b *rpBuilder) value(t types.Type, leaves []string, depth int) string {
	if b.bad != "" {
		return "nil"
	}
	ls := b.e.layoutOf(t).L
	if len(ls) != len(leaves) {
		return b.fail("layout mismatch for %s", t)
	}
	if foreignOpaque(t, b.pkg) {
		return b.typeStr(t) + "{}"
	}
	switch u := t.Underlying().(type) {
	case *types.Basic:
		vals, ok := b.m.get(leaves)
		if !ok {
			return b.fail("no model value for %s", leaves[0])
		}
		switch {
		case u.Info()&types.IsBoolean != 0:
			return b.typeStr(t) + "(" + vals[0] + ")"
		case u.Info()&types.IsInteger != 0:
			n, ok := smtInt(vals[0])
			if !ok {
				return b.fail("cannot read integer %q", vals[0])
			}
			if ls[0].Signed && n.Bit(ls[0].W-1) == 1 {
				n.Sub(n, new(big.Int).Lsh(big.NewInt(1), uint(ls[0].W)))
			}
			b.note(n)
			if u.Kind() == types.Int64 && n.Cmp(big.NewInt(-1<<63)) == 0 || u.Kind() == types.Int && n.Cmp(big.NewInt(-1<<63)) == 0 {
				return b.typeStr(t) + "(-1 << 63)"
			}
			return b.typeStr(t) + "(" + n.String() + ")"
		case u.Kind() == types.String:
			return b.typeStr(t) + `("")`
		case u.Info()&types.IsFloat != 0:
			return b.typeStr(t) + "(0)"
		case u.Kind() == types.UnsafePointer:
			return "nil"
		}
		return b.fail("unsupported basic type %s", t)
	case *types.Pointer:
		vals, ok := b.m.get(leaves)
		if !ok {
			return b.fail("no model value for %s", leaves[0])
		}
		ref, _ := smtInt(vals[0])
		if ref == nil || ref.Sign() == 0 {
			return "(" + b.typeStr(t) + ")(nil)"
		}
		et := u.Elem()
		tk := typeKey(et)
		key := tk + "@" + ref.String()
		if v, ok := b.ptrs[key]; ok {
			return v
		}
		if foreignOpaque(et, b.pkg) {
			return "new(" + b.typeStr(et) + ")"
		}
		b.n++
		v := fmt.Sprintf("p%d", b.n)
		b.ptrs[key] = v
		b.stmts = append(b.stmts, fmt.Sprintf("%s := new(%s)", v, b.typeStr(et)))
		if depth <= 0 {
			return v
		}
		els := b.e.layoutOf(et).L
		var sub []string
		for j, li := range els {
			sym := entrySym('O', tk, j)
			b.m.declare(sym, "(Array Int "+li.Sort+")")
			sub = append(sub, fmt.Sprintf("(select %s %s)", sym, ref.String()))
		}
		val := b.value(et, sub, depth-1)
		b.stmts = append(b.stmts, fmt.Sprintf("*%s = %s", v, val))
		return v
	case *types.Slice:
		vals, ok := b.m.get(leaves)
		if !ok {
			return b.fail("no model value for %s", leaves[0])
		}
		base, _ := smtInt(vals[0])
		off, _ := smtInt(vals[1])
		ln, _ := smtInt(vals[2])
		cp, _ := smtInt(vals[3])
		if base == nil || off == nil || ln == nil || cp == nil {
			return b.fail("cannot read slice header")
		}
		b.note(ln)
		if ln.Sign() == 0 && (base.Sign() == 0 || cp.Sign() == 0) {
			return "(" + b.typeStr(t) + ")(nil)"
		}
		if !ln.IsInt64() || !off.IsInt64() || ln.Int64() > 512 || off.Int64()+ln.Int64() > rpBackLen {
			return b.fail("model needs a slice of length %s at offset %s (no small model)", ln, off)
		}
		et := u.Elem()
		tk := typeKey(et)
		key := tk + "@" + base.String()
		bk, ok := b.backs[key]
		if !ok {
			b.n++
			bk = fmt.Sprintf("bk%d", b.n)
			b.backs[key] = bk
			b.stmts = append(b.stmts, fmt.Sprintf("%s := make([]%s, %d)", bk, b.typeStr(et), rpBackLen))
		}
		o, n := off.Int64(), ln.Int64()
		c := int64(rpBackLen) - o
		if cp.IsInt64() && cp.Int64() < c {
			c = cp.Int64()
		}
		els := b.e.layoutOf(et).L
		for i := int64(0); i < n; i++ {
			fk := fmt.Sprintf("%s[%d]", bk, o+i)
			if b.filled[fk] {
				continue
			}
			b.filled[fk] = true
			var sub []string
			for j, li := range els {
				sym := entrySym('E', tk, j)
				b.m.declare(sym, "(Array Int (Array (_ BitVec 64) "+li.Sort+"))")
				sub = append(sub, fmt.Sprintf("(select (select %s %s) (_ bv%d 64))", sym, base.String(), o+i))
			}
			val := b.value(et, sub, depth-1)
			b.stmts = append(b.stmts, fmt.Sprintf("%s = %s", fk, val))
		}
		return fmt.Sprintf("%s(%s[%d:%d:%d])", b.typeStr(t), bk, o, o+n, o+c)
	case *types.Struct:
		var fs []string
		for i := 0; i < u.NumFields(); i++ {
			f := u.Field(i)
			lo, hi := b.e.fieldRange(u, i)
			if f.Name() == "_" || foreignOpaque(f.Type(), b.pkg) {
				continue
			}
			if !f.Exported() && f.Pkg() != b.pkg {
				continue
			}
			switch f.Type().Underlying().(type) {
			case *types.Chan, *types.Signature, *types.Interface:
				continue // zero value
			}
			fs = append(fs, f.Name()+": "+b.value(f.Type(), leaves[lo:hi], depth))
		}
		return b.typeStr(t) + "{" + strings.Join(fs, ", ") + "}"
	case *types.Array:
		if u.Len() > 64 {
			return b.fail("array of %d elements", u.Len())
		}
		var es []string
		for i := int64(0); i < u.Len(); i++ {
			var sub []string
			for _, l := range leaves {
				sub = append(sub, fmt.Sprintf("(select %s (_ bv%d 64))", l, i))
			}
			es = append(es, b.value(u.Elem(), sub, depth))
		}
		return b.typeStr(t) + "{" + strings.Join(es, ", ") + "}"
	case *types.Map:
		return b.mapValue(t, u, leaves, depth)
	case *types.Chan, *types.Signature, *types.Interface:
		return "(" + b.typeStr(t) + ")(nil)"
	}
	return b.fail("unsupported type %s", t)
}

// mapValue rebuilds a map with integer keys from the model: membership is queried for a finite
// set of candidate keys (every integer seen so far in the model, and a few small ones); the model
// is then asked to make the map's domain exactly the members found and, for summed maps, its sum
// the sum of their values, so that invariants such as used == sum(keyCosts) carry over.
func (b *rpBuilder) mapValue(t types.Type, u *types.Map, leaves []string, depth int) string {
	vals, ok := b.m.get(leaves)
	if !ok {
		return b.fail("no model value for %s", leaves[0])
	}
	ref, _ := smtInt(vals[0])
	if ref == nil || ref.Sign() == 0 {
		return "(" + b.typeStr(t) + ")(nil)"
	}
	kb, ok := u.Key().Underlying().(*types.Basic)
	if !ok || kb.Info()&types.IsInteger == 0 {
		return b.fail("map with non-integer keys")
	}
	mi := b.e.mapInfoOf(t)
	key := "map:" + mi.Key + "@" + ref.String()
	if v, ok := b.ptrs[key]; ok {
		return v
	}
	b.n++
	mv := fmt.Sprintf("m%d", b.n)
	b.ptrs[key] = mv
	b.stmts = append(b.stmts, fmt.Sprintf("%s := %s{}", mv, b.typeStr(t)))
	dom := quoteSym(mi.domName() + "@0")
	b.m.declare(dom, mi.domSort())
	domArr := fmt.Sprintf("(select %s %s)", dom, ref.String())
	kw := b.e.layoutOf(u.Key()).L[0].W
	var cands []int64
	for v := range b.dom {
		if v >= 0 && (kw >= 63 || v < (1<<uint(kw))) {
			cands = append(cands, v)
		}
	}
	sort.Slice(cands, func(i, j int) bool { return cands[i] < cands[j] })
	if len(cands) > 40 {
		cands = cands[:40]
	}
	var memberQ []string
	for _, c := range cands {
		memberQ = append(memberQ, fmt.Sprintf("(select %s (_ bv%d %d))", domArr, c, kw))
	}
	mem, ok := b.m.get(memberQ)
	if !ok {
		return b.fail("no model for the map's domain")
	}
	var members []int64
	for i, c := range cands {
		if strings.TrimSpace(mem[i]) == "true" {
			members = append(members, c)
		}
	}
	// ask for a model in which the domain is exactly these members (and sum/cardinality agree)
	arr := fmt.Sprintf("((as const (Array (_ BitVec %d) Bool)) false)", kw)
	for _, c := range members {
		arr = fmt.Sprintf("(store %s (_ bv%d %d) true)", arr, c, kw)
	}
	try := []string{fmt.Sprintf("(assert (= %s %s))", domArr, arr)}
	var valArrs []string
	for j := range mi.VLeaves {
		vs := quoteSym(mi.valName(j) + "@0")
		b.m.declare(vs, mi.valSort(j))
		valArrs = append(valArrs, fmt.Sprintf("(select %s %s)", vs, ref.String()))
	}
	if cf := quoteSym("mcard:" + mi.KSort); b.m.decl[cf] {
		try = append(try, fmt.Sprintf("(assert (= (%s %s) (_ bv%d 64)))", cf, domArr, len(members)))
	}
	if sf := quoteSym("msum:" + mi.KSort); b.m.decl[sf] && len(mi.VLeaves) == 1 && mi.VLeaves[0].Kind == kBV && mi.VLeaves[0].W == 64 {
		sum := "(_ bv0 64)"
		for _, c := range members {
			sum = fmt.Sprintf("(bvadd %s (select %s (_ bv%d %d)))", sum, valArrs[0], c, kw)
		}
		try = append(try, fmt.Sprintf("(assert (= (%s %s %s) %s))", sf, domArr, valArrs[0], sum))
	}
	if _, ok := b.m.get([]string{"alloc0"}, try...); !ok {
		b.m.log = append(b.m.log, "the model cannot be narrowed to a finite map; using the candidate members only")
	}
	for _, c := range members {
		var sub []string
		for j := range mi.VLeaves {
			sub = append(sub, fmt.Sprintf("(select %s (_ bv%d %d))", valArrs[j], c, kw))
		}
		val := b.value(u.Elem(), sub, depth-1)
		b.stmts = append(b.stmts, fmt.Sprintf("%s[%s(%d)] = %s", mv, b.typeStr(u.Key()), c, val))
	}
	return mv
}

// ---- clause analysis ------------------------------------------------------------------

// polarityOK reports whether, in expression x evaluated at polarity pos, every gcForall
// occurs positively and every gcExists negatively (bounded evaluation is then sound
// for reporting the clause false).
func (e *Engine) polarityOK(x ast.Expr, pos bool, specs map[string]ast.Expr, depth int) bool {
	hasQ := func(n ast.Node) bool {
		q := false
		ast.Inspect(n, func(n ast.Node) bool {
			if c, ok := n.(*ast.CallExpr); ok {
				if id, ok := c.Fun.(*ast.Ident); ok {
					if id.Name == "gcForall" || id.Name == "gcExists" {
						q = true
					} else if b, ok := specs[id.Name]; ok && depth < 4 {
						if !e.polarityOK(b, true, specs, depth+1) || !e.polarityOK(b, false, specs, depth+1) {
							q = true
						}
					}
				}
			}
			return !q
		})
		return q
	}
	switch v := x.(type) {
	case *ast.ParenExpr:
		return e.polarityOK(v.X, pos, specs, depth)
	case *ast.UnaryExpr:
		if v.Op == token.NOT {
			return e.polarityOK(v.X, !pos, specs, depth)
		}
	case *ast.BinaryExpr:
		if v.Op == token.LAND || v.Op == token.LOR {
			return e.polarityOK(v.X, pos, specs, depth) && e.polarityOK(v.Y, pos, specs, depth)
		}
	case *ast.CallExpr:
		if id, ok := v.Fun.(*ast.Ident); ok {
			switch id.Name {
			case "gcImplies":
				return e.polarityOK(v.Args[0], !pos, specs, depth) && e.polarityOK(v.Args[1], pos, specs, depth)
			case "gcForall", "gcExists":
				if (id.Name == "gcForall") != pos {
					return false
				}
				if fl, ok := v.Args[0].(*ast.FuncLit); ok && len(fl.Body.List) == 1 {
					if rs, ok := fl.Body.List[0].(*ast.ReturnStmt); ok && len(rs.Results) == 1 {
						return e.polarityOK(rs.Results[0], pos, specs, depth)
					}
				}
				return false
			default:
				if b, ok := specs[id.Name]; ok && depth < 4 {
					for _, a := range v.Args {
						if hasQ(a) {
							return false
						}
					}
					return e.polarityOK(b, pos, specs, depth+1)
				}
			}
		}
	}
	return !hasQ(x)
}

type rpClause struct {
	decl *ast.FuncDecl
	body ast.Expr
}

func parseGen(src string) (*token.FileSet, *ast.File, error) {
	fset := token.NewFileSet()
	f, err := parser.ParseFile(fset, "gen.go", src, parser.ParseComments)
	return fset, f, err
}

func exprString(fset *token.FileSet, x ast.Node) string {
	var buf bytes.Buffer
	printer.Fprint(&buf, fset, x)
	return buf.String()
}

func singleReturn(fd *ast.FuncDecl) ast.Expr {
	if fd.Body == nil || len(fd.Body.List) != 1 {
		return nil
	}
	if rs, ok := fd.Body.List[0].(*ast.ReturnStmt); ok && len(rs.Results) == 1 {
		return rs.Results[0]
	}
	return nil
}

// ---- the replay ------------------------------------------------------------------------

func buildGoReplay(e *Engine, verif, prop string, r *FuncResult, o *Obl, rec map[string]interface{}) *goReplay {
	why := func(f string, a ...interface{}) *goReplay {
		rec["replay_unsupported"] = fmt.Sprintf(f, a...)
		return nil
	}
	fi := e.infos[r.Key]
	fn := e.fnOf[r.Key]
	if fi == nil || fn == nil || fi.Obj == nil || r.VC == nil {
		return why("no function information")
	}
	if fi.TParams != "" || fi.Lit != nil || strings.Contains(r.Key, "[GOARCH=") {
		return why("generic functions, function literals and other-architecture builds have no executable replay")
	}
	i := strings.Index(o.Name, "#")
	cls := baseName(o.Name[i+1:])
	kind := ""
	switch {
	case strings.HasPrefix(cls, "ensures"):
		kind = "ensures"
	case strings.HasPrefix(cls, "index:"), strings.HasPrefix(cls, "slice:"), strings.HasPrefix(cls, "nil:"), strings.HasPrefix(cls, "divzero"), strings.HasPrefix(cls, "makeslice"), strings.HasPrefix(cls, "nilmap"), strings.HasPrefix(cls, "nopanic"), strings.HasPrefix(cls, "panic"):
		kind = "panic"
	default:
		return why("obligation class %q has no executable replay (only ensures clauses and no-panic obligations do)", cls)
	}
	mm := reScriptPath.FindStringSubmatch(o.Output)
	if mm == nil {
		return why("solver script not kept")
	}
	script, err := os.ReadFile(mm[1])
	if err != nil {
		return why("solver script not readable")
	}
	sig := fi.Obj.Type().(*types.Signature)
	pkg := fi.Obj.Pkg()
	// ---- the clause
	fset, gf, err := parseGen(e.genSrc[fi.C.Pkg])
	if err != nil {
		return why("generated clause file does not parse: %v", err)
	}
	decls := map[string]*ast.FuncDecl{}
	specs := map[string]ast.Expr{}
	for _, d := range gf.Decls {
		if fd, ok := d.(*ast.FuncDecl); ok {
			decls[fd.Name.Name] = fd
			if !strings.HasPrefix(fd.Name.Name, "gc_") && !strings.HasPrefix(fd.Name.Name, "gc") {
				if b := singleReturn(fd); b != nil {
					specs[fd.Name.Name] = b
				}
			}
		}
	}
	for n, fd := range decls {
		if strings.HasPrefix(n, "Gc") || (!strings.HasPrefix(n, "gc")) {
			if b := singleReturn(fd); b != nil {
				specs[n] = b
			}
		}
	}
	var clause *Clause
	if kind == "ensures" {
		lbl := cls[strings.Index(cls, ":")+1:]
		if k := strings.LastIndex(lbl, "."); k > 0 {
			if _, err := fmt.Sscanf(lbl[k+1:], "%d", new(int)); err == nil {
				lbl = lbl[:k]
			}
		}
		for ci, c := range fi.C.Ensures {
			if clauseLabel(c, ci) == lbl {
				clause = c
			}
		}
		if clause == nil {
			return why("ensures clause %q not found", lbl)
		}
		fd := decls[clause.GoName]
		if fd == nil || singleReturn(fd) == nil {
			return why("clause function %s not found", clause.GoName)
		}
		if !e.polarityOK(singleReturn(fd), true, specs, 0) {
			return why("the clause has a quantifier in a position where bounded evaluation could report a false violation")
		}
	}
	// ---- inputs from a small model
	m := newRpModel(string(script), false)
	if _, ok := m.get([]string{"alloc0"}); !ok {
		// the solvers could not produce a model of the full script (quantifiers): take a
		// candidate from its quantifier-free weakening instead.  A candidate proves nothing
		// by itself; it counts only if the real code then violates the clause on it.
		m = newRpModel(string(script), true)
		rec["replay_note"] = "candidate input taken from the quantifier-free weakening of the obligation; validated only by running the real code"
	}
	b := &rpBuilder{e: e, m: m, pkg: pkg, ptrs: map[string]string{}, backs: map[string]string{}, filled: map[string]bool{}, dom: map[int64]bool{}}
	var small []string
	for _, in := range r.VC.inputs {
		if strings.HasSuffix(in.Desc, ".len") {
			small = append(small, fmt.Sprintf("(assert (bvsle %s (_ bv24 64)))", in.Name))
		}
		if strings.HasSuffix(in.Desc, ".off") {
			small = append(small, fmt.Sprintf("(assert (bvsle %s (_ bv64 64)))", in.Name))
		}
	}
	// pointee slices one level down
	for _, p := range fn.Params {
		if pt, ok := p.Type().Underlying().(*types.Pointer); ok {
			tk := typeKey(pt.Elem())
			for j, li := range e.layoutOf(pt.Elem()).L {
				if strings.HasSuffix(li.Path, ".len") || strings.HasSuffix(li.Path, ".off") {
					sym := entrySym('O', tk, j)
					m.declare(sym, "(Array Int "+li.Sort+")")
					lim := 24
					if strings.HasSuffix(li.Path, ".off") {
						lim = 64
					}
					small = append(small, fmt.Sprintf("(assert (bvsle (select %s %s) (_ bv%d 64)))", sym, quoteSym("in_"+p.Name()), lim))
				}
			}
		}
	}
	probe := []string{"alloc0"}
	if _, ok := m.get(probe, small...); !ok {
		if _, ok := m.get(probe); !ok {
			return why("the solver did not reproduce a model for the refuted obligation (%s)", strings.Join(m.log, "; "))
		}
		rec["replay_note"] = "no model with small slices exists; using the solver's model as is"
	}
	// all scalar inputs in one query (one consistent model); the integers among them are candidate
	// map keys and quantifier instances
	var inNames []string
	for _, in := range r.VC.inputs {
		if in.Sort == "Int" || in.Sort == "Bool" || strings.HasPrefix(in.Sort, "(_ BitVec") {
			inNames = append(inNames, in.Name)
		}
	}
	if vs, ok := m.get(inNames); ok {
		for i, in := range r.VC.inputs {
			_ = in
			if i < len(vs) && strings.HasPrefix(vs[i], "#") {
				if n, ok := smtInt(vs[i]); ok {
					b.note(n)
				}
			}
		}
	}
	for v := int64(0); v <= 3; v++ {
		b.dom[v] = true
	}
	var argExprs []string
	pi := 0
	for _, p := range fn.Params {
		ls := e.layoutOf(p.Type()).L
		var leaves []string
		for _, li := range ls {
			leaves = append(leaves, quoteSym("in_"+p.Name()+li.Path))
		}
		argExprs = append(argExprs, b.value(p.Type(), leaves, 3))
		pi++
	}
	if b.bad != "" {
		return why("inputs cannot be built from the model: %s (%s)", b.bad, strings.Join(m.log, "; "))
	}
	// ---- the test
	var names, typs []string
	for _, p := range fn.Params {
		names = append(names, p.Name())
		typs = append(typs, b.typeStr(p.Type()))
	}
	for k := range names {
		if names[k] == "_" || names[k] == "" {
			names[k] = fmt.Sprintf("arg%d", k)
		}
	}
	var sb strings.Builder
	pkgDir := fi.C.Pkg
	fmt.Fprintf(&sb, "package %s\n\nimport (\n\t\"fmt\"\n\t\"testing\"\n)\n\n", pkg.Name())
	fmt.Fprintf(&sb, "// replay of %s\n", shortObl(o.Name))
	fmt.Fprintf(&sb, "func rpMake() (%s) {\n", strings.Join(typs, ", "))
	for _, s := range b.stmts {
		fmt.Fprintf(&sb, "\t%s\n", s)
	}
	fmt.Fprintf(&sb, "\treturn %s\n}\n\n", strings.Join(argExprs, ", "))
	var dom []int64
	for v := int64(-2); v <= 40; v++ {
		b.dom[v] = true
	}
	for v := range b.dom {
		dom = append(dom, v)
	}
	sort.Slice(dom, func(i, j int) bool { return dom[i] < dom[j] })
	var ds []string
	for _, v := range dom {
		ds = append(ds, fmt.Sprint(v))
	}
	fmt.Fprintf(&sb, "func TestGovcReplay(t *testing.T) {\n\trpDomain = []int64{%s}\n", strings.Join(ds, ", "))
	var olds []string
	for _, n := range names {
		olds = append(olds, n+"__old")
	}
	if len(names) > 0 {
		fmt.Fprintf(&sb, "\t%s := rpMake()\n\t%s := rpMake()\n", strings.Join(names, ", "), strings.Join(olds, ", "))
		for k := range names {
			fmt.Fprintf(&sb, "\t_, _ = %s, %s\n", names[k], olds[k])
		}
	}
	// requires must hold on the constructed input
	for _, c := range fi.C.Requires {
		fd := decls[c.GoName]
		if fd == nil {
			continue
		}
		var as []string
		okc := true
		for _, f := range fd.Type.Params.List {
			for _, n := range f.Names {
				found := false
				for _, pn := range names {
					if pn == n.Name {
						found = true
					}
				}
				if !found {
					okc = false
				}
				as = append(as, n.Name)
			}
		}
		if !okc {
			continue
		}
		fmt.Fprintf(&sb, "\tif ok := func() (ok bool) { defer func() { if recover() != nil { ok = true } }(); return %s(%s) }(); !ok {\n\t\tfmt.Println(\"GOVC-REPLAY: precondition false on the constructed input (%s); the model does not transfer\")\n\t\treturn\n\t}\n", c.GoName, strings.Join(as, ", "), strings.ReplaceAll(c.Expr, `"`, `'`))
	}
	// the call
	nres := sig.Results().Len()
	var resNames []string
	for k := 0; k < nres; k++ {
		resNames = append(resNames, fmt.Sprintf("res%d", k))
		fmt.Fprintf(&sb, "\tvar res%d %s\n\t_ = res%d\n", k, b.typeStr(sig.Results().At(k).Type()), k)
	}
	call := ""
	if sig.Recv() != nil {
		call = fmt.Sprintf("%s.%s(%s)", names[0], fi.Obj.Name(), strings.Join(names[1:], ", "))
	} else {
		call = fmt.Sprintf("%s(%s)", fi.Obj.Name(), strings.Join(names, ", "))
	}
	if sig.Variadic() {
		return why("variadic function")
	}
	if nres > 0 {
		call = strings.Join(resNames, ", ") + " = " + call
	}
	fmt.Fprintf(&sb, "\tpanicked := func() (rpPanic any) { defer func() { rpPanic = recover() }(); %s; return nil }()\n", call)
	if kind == "panic" {
		fmt.Fprintf(&sb, "\tif panicked != nil {\n\t\tfmt.Printf(\"GOVC-REPLAY: VIOLATED: the real code panics on this input: %%v\\n\", panicked)\n\t} else {\n\t\tfmt.Println(\"GOVC-REPLAY: no panic on this input\")\n\t}\n}\n")
	} else {
		fmt.Fprintf(&sb, "\tif panicked != nil {\n\t\tfmt.Printf(\"GOVC-REPLAY: the real code panicked before the postcondition could be evaluated: %%v\\n\", panicked)\n\t\treturn\n\t}\n")
		// clause with old-state parameters
		fd := decls[clause.GoName]
		body := singleReturn(fd)
		isParam := map[string]bool{}
		for _, n := range names {
			isParam[n] = true
		}
		var rewrite func(n ast.Node, inOld bool) ast.Node
		_ = rewrite
		// rename parameters inside gcOld(...)
		ast.Inspect(body, func(n ast.Node) bool {
			c, ok := n.(*ast.CallExpr)
			if !ok {
				return true
			}
			if id, ok := c.Fun.(*ast.Ident); ok && id.Name == "gcOld" && len(c.Args) == 1 {
				ast.Inspect(c.Args[0], func(m ast.Node) bool {
					if fl, ok := m.(*ast.FuncLit); ok {
						// bound variables shadow nothing we rename unless they share a name; keep simple
						_ = fl
					}
					if id, ok := m.(*ast.Ident); ok && isParam[id.Name] {
						id.Name = id.Name + "__old"
					}
					return true
				})
			}
			return true
		})
		var ps []string
		var as []string
		okc := true
		ri := 0
		for _, f := range fd.Type.Params.List {
			for _, n := range f.Names {
				ps = append(ps, n.Name+" "+exprString(fset, f.Type))
				if isParam[n.Name] || strings.HasSuffix(n.Name, "__old") && isParam[strings.TrimSuffix(n.Name, "__old")] {
					as = append(as, strings.TrimSuffix(n.Name, "__old"))
				} else if ri < nres {
					as = append(as, resNames[ri])
					ri++
				} else {
					okc = false
				}
			}
		}
		if !okc {
			return why("the clause refers to values the replay cannot supply")
		}
		for k, n := range names {
			ps = append(ps, n+"__old "+typs[k])
			as = append(as, olds[k])
		}
		fmt.Fprintf(&sb, "\tholds, unsupported := func() (h bool, u any) { defer func() { u = recover() }(); return rpClause(%s), nil }()\n", strings.Join(as, ", "))
		fmt.Fprintf(&sb, "\tswitch {\n\tcase unsupported != nil:\n\t\tfmt.Printf(\"GOVC-REPLAY: clause not evaluable: %%v\\n\", unsupported)\n\tcase !holds:\n\t\tfmt.Printf(\"GOVC-REPLAY: VIOLATED: postcondition false on the real code's result (%s)\\n\")\n\tdefault:\n\t\tfmt.Println(\"GOVC-REPLAY: postcondition holds on this input\")\n\t}\n}\n\n", strings.ReplaceAll(strings.ReplaceAll(clause.Expr, `"`, `'`), "%", "%%"))
		fmt.Fprintf(&sb, "func rpClause(%s) bool { return %s }\n", strings.Join(ps, ", "), exprString(fset, body))
	}
	// generated clause files (every package: specs are shared across packages) with the executable prelude
	gens := map[string]interface{}{}
	for d, gen := range e.genSrc {
		k1 := strings.Index(gen, "// ---- contract prelude")
		k2 := strings.Index(gen, "// ---- end of contract prelude ----")
		if k1 < 0 || k2 < 0 {
			return why("generated file of %s has an unexpected layout", d)
		}
		gens[d] = gen[:k1] + rpPrelude + gen[k2:]
	}
	rec["go_test"] = sb.String()
	rec["go_gen"] = gens
	rec["go_pkg_dir"] = pkgDir
	rec["replay_cmd"] = "govc replay <this file>"
	return &goReplay{repo: e.repo, verif: verif}
}

func runGoReplay(repo, verif string, rec map[string]interface{}) (string, bool) {
	test, _ := rec["go_test"].(string)
	gens, _ := rec["go_gen"].(map[string]interface{})
	dir, _ := rec["go_pkg_dir"].(string)
	if test == "" {
		return "no executable replay", false
	}
	tmp, err := os.MkdirTemp("", "govc-replay")
	if err != nil {
		return err.Error(), false
	}
	defer os.RemoveAll(tmp)
	tf := filepath.Join(tmp, "t_test.go")
	os.WriteFile(tf, []byte(test), 0o644)
	repl := map[string]string{filepath.Join(repo, dir, "zz_govc_replay_test.go"): tf}
	gi := 0
	for d, g := range gens {
		gi++
		gfp := filepath.Join(tmp, fmt.Sprintf("g%d.go", gi))
		os.WriteFile(gfp, []byte(g.(string)), 0o644)
		repl[filepath.Join(repo, d, "zz_govc_replay_gen.go")] = gfp
	}
	ov := map[string]map[string]string{"Replace": repl}
	js, _ := json.Marshal(ov)
	ovf := filepath.Join(tmp, "ov.json")
	os.WriteFile(ovf, js, 0o644)
	env := toolEnv("")
	cmd := exec.Command("go", "test", "-overlay", ovf, "-vet=off", "-v", "-count=1", "-timeout", "60s", "-run", "^TestGovcReplay$", "./"+dir)
	cmd.Dir = repo
	cmd.Env = env
	done := make(chan struct{})
	var out []byte
	go func() { out, _ = cmd.CombinedOutput(); close(done) }()
	select {
	case <-done:
	case <-time.After(180 * time.Second):
		if cmd.Process != nil {
			cmd.Process.Kill()
		}
		<-done
	}
	s := string(out)
	return s, strings.Contains(s, "GOVC-REPLAY: VIOLATED")
}

func parseModel(s string) map[string]string {
	out := map[string]string{}
	i := strings.Index(s, "(")
	if i < 0 {
		return map[string]string{"raw": s}
	}
	root := parseSx(s[i:])
	if root == nil {
		return map[string]string{"raw": s}
	}
	body := s[i:]
	for _, k := range root.kids {
		if len(k.kids) == 2 {
			out[body[k.kids[0].s:k.kids[0].e]] = body[k.kids[1].s:k.kids[1].e]
		}
	}
	return out
}

// toolEnv is the environment of the repository's toolchain (offline).
func toolEnv(goarch string) []string {
	const tc = "/root/go/pkg/mod/golang.org/toolchain@v0.0.1-go1.25.0.linux-amd64/bin"
	if _, err := os.Stat(tc); err == nil && !strings.Contains(os.Getenv("PATH"), tc) {
		os.Setenv("PATH", tc+":"+os.Getenv("PATH"))
	}
	for k, v := range map[string]string{"GOTOOLCHAIN": "local", "GOFLAGS": "-mod=mod", "GOPROXY": "off", "GOSUMDB": "off"} {
		os.Setenv(k, v)
	}
	env := os.Environ()
	if goarch != "" {
		env = append(env, "GOARCH="+goarch)
	}
	return env
}

// selftest runs the must-fail corpus (tools/selftest.sh): seeded changes and reversed fixes, each
// applied in a scratch worktree, must be reported by the property's check.
func selftest(repo, verif string, args []string, tier string) error {
	cmd := exec.Command(filepath.Join(verif, "tools", "selftest.sh"), args...)
	cmd.Stdout, cmd.Stderr = os.Stdout, os.Stderr
	return cmd.Run()
}
