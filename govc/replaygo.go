package main

// Executable replays (generated in-package Go tests run through `go test -overlay`).
// Filled in by replaygen.go for the obligation classes it supports.

type goReplay struct{}

func (g *goReplay) run(rec map[string]interface{}) bool { return false }

func buildGoReplay(e *Engine, verif, prop string, r *FuncResult, o *Obl, rec map[string]interface{}) *goReplay {
	return nil
}

func runGoReplay(repo, verif string, rec map[string]interface{}) (string, bool) { return "", false }

func parseModel(s string) map[string]string { return map[string]string{"raw": s} }

func selftest(repo, verif string, args []string, tier string) error { return nil }
