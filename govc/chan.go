package main

import (
	"fmt"
	"go/token"
	"go/types"
	"strings"

	"golang.org/x/tools/go/ssa"
)

// Channels as ghost FIFOs.  For every channel ref the ghost heap holds a queue
// indexed by position, a producer index (tail), a consumer index (head), a closed
// flag and the capacity.  FIFO order and single consumption are Go's channel
// semantics (trusted).  Blocking is not modelled as time: a blocking receive
// assumes that an element (or a close) eventually arrives.

const chIdxSort = "(Array Int (_ BitVec 64))"

func (vc *VC) chGet(name, sort string) string { return vc.heapGet(name, sort) }

// The ghost arrays are kept per element type: channels of different element types
// are different objects and never alias.
func (vc *VC) chKey(base string) string {
	if vc.chET == nil {
		return base
	}
	return base + ":" + typeKey(vc.chET)
}
func (vc *VC) chTail(ch string) string { return sel(vc.chGet(vc.chKey("CH:tail"), chIdxSort), ch) }
func (vc *VC) chHead(ch string) string { return sel(vc.chGet(vc.chKey("CH:head"), chIdxSort), ch) }
func (vc *VC) chCap(ch string) string  { return sel(vc.chGet(vc.chKey("CH:cap"), chIdxSort), ch) }
func (vc *VC) chClosed(ch string) string {
	return sel(vc.chGet(vc.chKey("CH:closed"), "(Array Int Bool)"), ch)
}

// withElem runs f with the channel element type that selects the ghost arrays.
func (vc *VC) withElem(et types.Type, f func()) {
	saved := vc.chET
	vc.chET = et
	defer func() { vc.chET = saved }()
	f()
}

func (vc *VC) chQName(et types.Type, j int) (string, string) {
	tk := typeKey(et)
	vc.eng.tkTypes[tk] = et
	ls := vc.eng.layoutOf(et).L
	return fmt.Sprintf("CH:q:%s#%d", tk, j), "(Array Int (Array (_ BitVec 64) " + ls[j].Sort + "))"
}

func (vc *VC) chAt(et types.Type, ch, pos string) SV {
	ls := vc.eng.layoutOf(et).L
	out := SV{}
	for j := range ls {
		n, s := vc.chQName(et, j)
		out.L = append(out.L, sel(sel(vc.chGet(n, s), ch), pos))
	}
	return out
}

func (vc *VC) chSet(name, sort, ch, v string) {
	if !strings.HasPrefix(name, "CH:q:") {
		name = vc.chKey(name)
	}
	h := vc.chGet(name, sort)
	vc.heapSet(name, sort, sto(h, ch, v))
}

func chanElem(t types.Type) types.Type { return t.Underlying().(*types.Chan).Elem() }

// chanInvFor finds the channel invariant declared for an element type.
func (vc *VC) chanInvFor(et types.Type) *ChanInv {
	tk := typeKey(et)
	for _, cf := range vc.eng.cfiles {
		for _, ci := range cf.ChanInvs {
			fn := vc.eng.gcFunc(ci.Pkg, ci.GoName)
			if fn != nil && len(fn.Params) == 1 && typeKey(fn.Params[0].Type()) == tk {
				return ci
			}
		}
	}
	return nil
}

func (vc *VC) chanInitImpl(ref string, x *ssa.MakeChan, fr *Frame) {
	vc.chET = chanElem(x.Type())
	zero := bvLitI(0, 64)
	vc.chSet("CH:tail", chIdxSort, ref, zero)
	vc.chSet("CH:head", chIdxSort, ref, zero)
	vc.chSet("CH:closed", "(Array Int Bool)", ref, "false")
	sz, _ := vc.idx64(fr, x.Size)
	vc.chSet("CH:cap", chIdxSort, ref, sz)
}

// chanSendCond appends v to the queue of ch when cond holds.
func (vc *VC) chanSendCond(et types.Type, ch string, v SV, cond string) {
	vc.chET = et
	tail := vc.def(bvSort(64), vc.chTail(ch))
	ls := vc.eng.layoutOf(et).L
	for j := range ls {
		n, s := vc.chQName(et, j)
		h := vc.chGet(n, s)
		q := sel(h, ch)
		vc.heapSet(n, s, sto(h, ch, ite(cond, sto(q, tail, v.L[j]), q)))
	}
	vc.chSet("CH:tail", chIdxSort, ch, ite(cond, "(bvadd "+tail+" (_ bv1 64))", tail))
}

func (e *Engine) chanSend(vc *VC, fr *Frame, chv ssa.Value, v SV, blocking bool, pos token.Pos) {
	ch := vc.val(fr, chv).L[0]
	vc.chET = chanElem(chv.Type())
	vc.oblige("chan:send-on-closed", []string{"C08", "C15"}, not(vc.chClosed(ch)))
	vc.oblige("chan:send-on-nil", []string{"C08"}, not(eq(ch, "0")))
	if ci := vc.chanInvFor(chanElem(chv.Type())); ci != nil {
		vc.oblige("chaninv:send", []string{"C08"}, vc.evalClause(ci.GoName, ci.Pkg, []SV{v}, vc.st, vc.entry))
	}
	vc.chanSendCond(chanElem(chv.Type()), ch, v, "true")
	vc.noteAssumption("blocking channel operations are assumed to complete (liveness is not verified)")
}

// chanRecvCond takes the element at head when cond holds; returns value and ok.
func (vc *VC) chanRecvCond(et types.Type, ch string, cond string) (SV, string) {
	vc.chET = et
	head := vc.def(bvSort(64), vc.chHead(ch))
	tail := vc.def(bvSort(64), vc.chTail(ch))
	avail := vc.def("Bool", "(bvslt "+head+" "+tail+")")
	// a receive returns when an element is available or the channel is closed
	vc.assume(implies(cond, or(avail, vc.chClosed(ch))))
	at := vc.chAt(et, ch, head)
	zero := vc.zeroValue(et)
	out := SV{}
	ls := vc.eng.layoutOf(et).L
	for j := range ls {
		out.L = append(out.L, vc.def(ls[j].Sort, ite(avail, at.L[j], zero.L[j])))
	}
	vc.typeFacts(et, out)
	if ci := vc.chanInvFor(et); ci != nil {
		vc.assume(implies(and(cond, avail), vc.evalClause(ci.GoName, ci.Pkg, []SV{out}, vc.st, vc.entry)))
		if ci.Open {
			// such channels are never closed behind the receiver's back: an element is available
			vc.assume(implies(cond, or(avail, vc.chClosed(ch))))
		}
	}
	vc.chSet("CH:head", chIdxSort, ch, ite(and(cond, avail), "(bvadd "+head+" (_ bv1 64))", head))
	return out, avail
}

func (e *Engine) chanRecv(vc *VC, fr *Frame, chv ssa.Value, commaOk bool, pos token.Pos) SV {
	ch := vc.val(fr, chv).L[0]
	et := chanElem(chv.Type())
	// a blocking receive waits for other goroutines: they may have sent or closed meanwhile
	tk := typeKey(et)
	vc.eng.tkTypes[tk] = et
	vc.havocChan(Loc{Space: 'C', TK: tk, Ref: ch})
	out, ok := vc.chanRecvCond(et, ch, "true")
	// ghost: this goroutine has completed a receive on the channel
	vc.chET = et
	vc.chSet("CH:awaited", "(Array Int Bool)", ch, "true")
	if commaOk {
		out.L = append(out.L, ok)
	}
	vc.noteAssumption("blocking channel operations are assumed to complete (liveness is not verified)")
	return out
}

func (vc *VC) chanCloseImpl(ch string, et types.Type) {
	vc.chET = et
	vc.oblige("chan:close-of-closed", []string{"C08", "C15"}, not(vc.chClosed(ch)))
	vc.oblige("chan:close-of-nil", []string{"C08"}, not(eq(ch, "0")))
	vc.chSet("CH:closed", "(Array Int Bool)", ch, "true")
}

func (e *Engine) selectStmt(vc *VC, fr *Frame, x *ssa.Select) SV {
	// result tuple: (index int, recvOk bool, recv_0 T0, ...)
	idx := vc.fresh(bvSort(64), "selidx")
	n := len(x.States)
	lo := bvLitI(0, 64)
	if !x.Blocking {
		lo = "(bvneg (_ bv1 64))"
	}
	vc.assume(and("(bvsle "+lo+" "+idx+")", "(bvslt "+idx+" "+bvLitI(int64(n), 64)+")"))
	if x.Blocking {
		for _, s := range x.States {
			if s.Dir == types.RecvOnly {
				et := chanElem(s.Chan.Type())
				tk := typeKey(et)
				vc.eng.tkTypes[tk] = et
				vc.havocChan(Loc{Space: 'C', TK: tk, Ref: vc.val(fr, s.Chan).L[0]})
			}
		}
	}
	out := SV{L: []string{idx}}
	recvOk := "false"
	var recvs [][]string
	var ready []string
	for k, s := range x.States {
		ch := vc.val(fr, s.Chan).L[0]
		et := chanElem(s.Chan.Type())
		vc.chET = et
		chosen := vc.def("Bool", eq(idx, bvLitI(int64(k), 64)))
		if s.Dir == types.SendOnly {
			full := "(bvsge (bvsub " + vc.chTail(ch) + " " + vc.chHead(ch) + ") " + vc.chCap(ch) + ")"
			// a send case is taken only if there is room (or a receiver; unbuffered channels are
			// not distinguished), and the default only if every case would block
			ready = append(ready, not(full))
			saved := vc.st.Cond
			vc.st.Cond = vc.def("Bool", and(saved, chosen))
			vc.oblige("chan:send-on-closed", []string{"C08", "C15"}, not(vc.chClosed(ch)))
			vc.st.Cond = saved
			vc.assume(implies(chosen, not(full)))
			if ci := vc.chanInvFor(et); ci != nil {
				saved := vc.st.Cond
				vc.st.Cond = vc.def("Bool", and(saved, chosen))
				vc.oblige("chaninv:send", []string{"C08"}, vc.evalClause(ci.GoName, ci.Pkg, []SV{vc.val(fr, s.Send)}, vc.st, vc.entry))
				vc.st.Cond = saved
			}
			vc.chanSendCond(et, ch, vc.val(fr, s.Send), chosen)
		} else {
			avail := "(bvslt " + vc.chHead(ch) + " " + vc.chTail(ch) + ")"
			ready = append(ready, or(avail, vc.chClosed(ch)))
			v, ok := vc.chanRecvCond(et, ch, chosen)
			recvOk = ite(chosen, ok, recvOk)
			recvs = append(recvs, v.L)
		}
	}
	if !x.Blocking {
		// default is taken only when no case is ready
		vc.assume(implies(eq(idx, "(bvneg (_ bv1 64))"), not(or(ready...))))
	}
	out.L = append(out.L, vc.def("Bool", recvOk))
	for _, r := range recvs {
		out.L = append(out.L, r...)
	}
	return out
}

// havocChan: the callee (or another iteration) may have sent to, received from or
// closed the channel: indices only grow, the already enqueued prefix is immutable,
// a closed channel stays closed.
func (vc *VC) havocChan(l Loc) {
	ch := l.Ref
	if et, ok := vc.eng.tkTypes[l.TK]; ok {
		vc.chET = et
	}
	ot, oh := vc.def(bvSort(64), vc.chTail(ch)), vc.def(bvSort(64), vc.chHead(ch))
	oc := vc.def("Bool", vc.chClosed(ch))
	nt, nh := vc.fresh(bvSort(64), "chtail"), vc.fresh(bvSort(64), "chhead")
	nc := vc.fresh("Bool", "chclosed")
	vc.assume(and("(bvsle "+ot+" "+nt+")", "(bvsle "+oh+" "+nh+")", "(bvsle "+nh+" "+nt+")", implies(oc, nc)))
	if et, ok := vc.eng.tkTypes[l.TK]; ok {
		if ci := vc.chanInvFor(et); ci != nil && ci.Open {
			vc.assume(eq(nc, oc))
		}
	}
	vc.chSet("CH:tail", chIdxSort, ch, nt)
	vc.chSet("CH:head", chIdxSort, ch, nh)
	vc.chSet("CH:closed", "(Array Int Bool)", ch, nc)
	if et, ok := vc.eng.tkTypes[l.TK]; ok {
		ls := vc.eng.layoutOf(et).L
		for j := range ls {
			n, s := vc.chQName(et, j)
			h := vc.chGet(n, s)
			q := vc.def("(Array (_ BitVec 64) "+ls[j].Sort+")", sel(h, ch))
			nq := vc.fresh("(Array (_ BitVec 64) "+ls[j].Sort+")", "chq")
			vc.assume(fmt.Sprintf("(forall ((p!q (_ BitVec 64))) (! (=> (bvslt p!q %s) (= (select %s p!q) (select %s p!q))) :pattern ((select %s p!q))))", ot, nq, q, nq))
			vc.heapSet(n, s, sto(h, ch, nq))
		}
	}
}
