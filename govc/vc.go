package main

import (
	"fmt"
	"go/types"
	"sort"
	"strings"

	"golang.org/x/tools/go/ssa"
)

type ssaFn = ssa.Function

// State is the symbolic state at a program point.  SSA registers live in the
// frame (they are immutable); the state holds what is mutable.
type State struct {
	Cond  string            // reachability condition of this point
	Heap  map[string]string // heap array name -> current term
	Alloc string            // allocation watermark (Int): every existing ref is <= Alloc
	Locks map[string]int    // must-hold lock set: lock key -> 1 (write) / 2 (read)
	Ghost map[string]string // ghost scalars
	Held  map[string]*heldLock
}

type heldLock struct {
	inv  *LockInv
	mode int
	locs []Loc
}

func (s *State) clone() *State {
	n := &State{Cond: s.Cond, Alloc: s.Alloc, Heap: make(map[string]string, len(s.Heap)), Locks: map[string]int{}, Ghost: map[string]string{}, Held: map[string]*heldLock{}}
	for k, v := range s.Held {
		n.Held[k] = v
	}
	for k, v := range s.Heap {
		n.Heap[k] = v
	}
	for k, v := range s.Locks {
		n.Locks[k] = v
	}
	for k, v := range s.Ghost {
		n.Ghost[k] = v
	}
	return n
}

type Obl struct {
	Name   string
	Kind   string // assert | smoke | sat
	Tags   []string
	Prefix int // number of script lines visible
	Guard  string
	Goal   string
	Func   string
	Where  string // source position of the instruction that generated it (informational; names carry no line numbers)
	// results
	Status  string // discharged | refuted | undecided
	Backend string
	Time    float64
	Model   string
	Output  string
}

// VC generates the verification conditions of one function.
type VC struct {
	eng           *Engine
	root          *ssa.Function
	fi            *FuncInfo
	lines         []string
	decls         []string // global declarations (initial heap, uninterpreted functions)
	n             int
	obls          []*Obl
	st            *State
	heapSort      map[string]string
	declared      map[string]bool
	strLits       map[string]string
	pure          int // >0: evaluating a specification expression (no obligations, no effects)
	inline        int // >0: inside a binder: do not introduce names
	depth         int
	stack         []*ssa.Function
	entry         *State
	entryAtLock   bool
	entryAlloc    string
	retBlock      *ssa.BasicBlock // the return being checked (for postconditions that mention locals)
	retInstr      ssa.Instruction
	rootMods      []Loc
	rootModsAll   bool // function may modify anything (no frame checking): only for `noframe`
	assumptions   []string
	oblNames      map[string]int
	inputs        []inputVar // entry constants, for replay
	uf            map[string]bool
	curFrame      *Frame
	lastFrame     *Frame
	meta          map[string]SV
	vcells        map[string][]string
	opaque        map[string]*opaqueDef
	rec           *heapRec
	recOwner      *opaqueDef
	quants        map[string]*quantInfo
	revealed      map[string]bool
	hidden        map[string]bool
	grounding     map[string]bool
	binder        int
	usedContracts map[string]bool
	usedLemmas    []*Lemma
	proved        map[string][]string
	sliceProvs    map[string]sliceProv
	inOldAt       map[string]bool
	marks         map[string]*State // state snapshots taken by `at call f#k mark label`
	heapAlloc     map[string]string // heap array version -> allocation watermark when it was created
	gkinds        []guardKind
	gkDone        bool
	trace         []string
	curPos        string
	boolDefs      map[string]string
	chET          types.Type
}

type inputVar struct {
	Name string
	Sort string
	Desc string
}

type Loc struct {
	Space                       byte // 'O', 'E', 'M'
	TK                          string
	Lo, Hi                      int // leaf range; Hi==0 means all
	Ref                         string
	Idx                         string // "" = all
	Desc                        string
	ParentOff, ParentCap, LenOK string // optional: the window lies inside the slice (ParentOff, ParentCap) whenever LenOK
	WinLo, WinLen               string // E space, Idx == "": absolute index window [WinLo, WinLo+WinLen) (the slice's off and cap)
}

type vcError struct{ msg string }

func (vc *VC) fail(f string, a ...interface{}) {
	panic(vcError{fmt.Sprintf(f, a...)})
}

func (vc *VC) emit(l string) { vc.lines = append(vc.lines, l) }

func (vc *VC) freshName(hint string) string {
	vc.n++
	return fmt.Sprintf("%s!%d", sanitize(hint), vc.n)
}

func isAtom(t string) bool {
	return !strings.ContainsAny(t, " ") || strings.HasPrefix(t, "(_ bv")
}

// def names a term so that it is shared instead of duplicated.
func (vc *VC) def(sort, term string) string {
	// under a binder terms mention bound variables and cannot be named; elsewhere
	// (including specification code outside binders) naming keeps scripts small
	if vc.binder > 0 || vc.rec != nil || isAtom(term) {
		return term
	}
	if vc.inline > 0 && len(term) < 200 {
		return term
	}
	n := vc.freshName("v")
	// a constant plus a defining equation (not a define-fun macro: macros are
	// expanded inside triggers, and triggers must not contain ite/store)
	vc.emit(fmt.Sprintf("(declare-const %s %s)", n, sort))
	vc.emit(fmt.Sprintf("(assert (= %s %s))", n, term))
	if sort == "Bool" {
		if vc.boolDefs == nil {
			vc.boolDefs = map[string]string{}
		}
		vc.boolDefs[n] = term
	}
	return n
}

func (vc *VC) fresh(sort, hint string) string {
	if vc.inline > 0 {
		vc.fail("internal: fresh constant %q requested inside a binder", hint)
	}
	n := vc.freshName(hint)
	vc.emit(fmt.Sprintf("(declare-const %s %s)", n, sort))
	return n
}

func (vc *VC) assume(fact string) {
	if vc.pure > 0 || fact == "true" {
		return
	}
	vc.emit("(assert " + implies(vc.st.Cond, fact) + ")")
}

func (vc *VC) oblige(kind string, tags []string, goal string) *Obl {
	if vc.pure > 0 {
		return nil
	}
	name := vc.root.String() + "#" + kind
	if k := vc.oblNames[name]; k > 0 {
		vc.oblNames[name] = k + 1
		name = fmt.Sprintf("%s~%d", name, k+1)
	} else {
		vc.oblNames[name] = 1
	}
	o := &Obl{Name: name, Kind: "assert", Tags: tags, Prefix: len(vc.lines), Guard: vc.st.Cond, Goal: goal, Func: vc.root.String(), Where: vc.curPos}
	if goal == "true" || vc.st.Cond == "false" {
		o.Status = "discharged"
		o.Backend = "trivial"
	}
	// the same goal already established under the same (or no) path condition
	if vc.proved == nil {
		vc.proved = map[string][]string{}
	}
	for _, c := range vc.proved[goal] {
		if c == vc.st.Cond || c == "true" {
			o.Status = "discharged"
			o.Backend = "trivial"
		}
	}
	vc.proved[goal] = append(vc.proved[goal], vc.st.Cond)
	vc.obls = append(vc.obls, o)
	// after checking, the fact may be assumed on this path
	vc.assume(goal)
	return o
}

func (vc *VC) smoke(kind string) {
	if vc.pure > 0 {
		return
	}
	name := vc.root.String() + "#smoke:" + kind
	if k := vc.oblNames[name]; k > 0 {
		vc.oblNames[name] = k + 1
		name = fmt.Sprintf("%s~%d", name, k+1)
	} else {
		vc.oblNames[name] = 1
	}
	k := "smoke"
	if vc.fi != nil {
		short := name[strings.Index(name, "#smoke:")+7:]
		for _, p := range strings.Split(vc.fi.C.Attrs["infeasible"], ",") {
			if p != "" && p == short {
				k = "smoke-dead"
				vc.noteAssumption("sequential model: program point " + short + " of " + vc.root.String() + " is unreachable (" + vc.fi.C.Attrs["infeasible:"+p] + ")")
			}
		}
	}
	vc.obls = append(vc.obls, &Obl{Name: name, Kind: k, Prefix: len(vc.lines), Guard: vc.st.Cond, Goal: "false", Func: vc.root.String()})
}

// smokePath: in path mode an individual path may be infeasible; what must hold is
// that at least one return path is feasible (checked by the driver).
func (vc *VC) smokePath(kind string) {
	vc.smoke(kind)
	vc.obls[len(vc.obls)-1].Kind = "smoke-path"
}

// ---- heap --------------------------------------------------------------------

func (vc *VC) heapInit(name, sort string) string {
	n := quoteSym(name + "@0")
	if !vc.declared[n] {
		vc.declared[n] = true
		vc.heapSort[name] = sort
		// declarations of initial heap arrays are global: every obligation sees them
		vc.decls = append(vc.decls, fmt.Sprintf("(declare-const %s %s)", n, sort))
		if strings.HasPrefix(name, "MD:") {
			// nil map has empty domain
			vc.decls = append(vc.decls, fmt.Sprintf("(assert (= (select %s 0) ((as const %s) false)))", n, innerSort(sort)))
		}
	}
	return n
}

func innerSort(arr string) string {
	// (Array Int X) -> X
	s := strings.TrimPrefix(arr, "(Array Int ")
	return strings.TrimSuffix(s, ")")
}

func (vc *VC) heapGet(name, sort string) string {
	if vc.rec != nil {
		// defining an opaque spec function: heap arrays are formal parameters
		found := false
		for _, n := range vc.rec.names {
			if n == name {
				found = true
			}
		}
		if !found {
			vc.rec.names = append(vc.rec.names, name)
			vc.rec.sorts = append(vc.rec.sorts, sort)
			vc.heapSort[name] = sort
		}
		return quoteSym("H:" + name)
	}
	if t, ok := vc.st.Heap[name]; ok {
		return t
	}
	return vc.heapInit(name, sort)
}

func (vc *VC) heapSet(name, sort, term string) {
	if vc.pure > 0 {
		vc.fail("specification expression writes to the heap (%s)", name)
	}
	vc.heapSort[name] = sort
	t := vc.def(sort, term)
	vc.st.Heap[name] = t
	// every reference stored in this version of the array exists by now
	if vc.heapAlloc == nil {
		vc.heapAlloc = map[string]string{}
	}
	vc.heapAlloc[t] = vc.st.Alloc
}

func objHeapName(tk string, leaf int) string  { return fmt.Sprintf("O:%s#%d", tk, leaf) }
func elemHeapName(tk string, leaf int) string { return fmt.Sprintf("E:%s#%d", tk, leaf) }

func (vc *VC) lvLeafSorts(lv *LVal) []leafInfo {
	return vc.eng.layoutOf(lv.ObjT).L
}

func (vc *VC) heapOf(lv *LVal, j int) (name, sort string) {
	ol := vc.lvLeafSorts(lv)
	if lv.Leaf+j >= len(ol) {
		vc.fail("internal: leaf %d out of range for %s (%d leaves), loc type %s", lv.Leaf+j, lv.TK, len(ol), lv.Typ)
	}
	ls := ol[lv.Leaf+j].Sort
	if lv.Space == 'O' {
		return objHeapName(lv.TK, lv.Leaf+j), "(Array Int " + ls + ")"
	}
	return elemHeapName(lv.TK, lv.Leaf+j), "(Array Int (Array (_ BitVec 64) " + ls + "))"
}

func (vc *VC) load(lv *LVal) SV {
	if lv.Space == 'V' {
		n := len(vc.eng.layoutOf(lv.Typ).L)
		cell := vc.vcells[lv.Ref]
		out := SV{L: make([]string, n)}
		for j := 0; j < n; j++ {
			t := cell[lv.Leaf+j]
			for _, a := range lv.Arr {
				t = sel(t, a)
			}
			out.L[j] = t
		}
		return out
	}
	if lv.ByteView {
		word, _, _, sh := vc.byteViewWord(lv)
		return scalar(vc.def(bvSort(8), "((_ extract 7 0) (bvlshr "+word+" "+sh+"))"))
	}
	n := len(vc.eng.layoutOf(lv.Typ).L)
	out := SV{L: make([]string, n)}
	tl := vc.eng.layoutOf(lv.Typ).L
	bound := ""
	for j := 0; j < n; j++ {
		name, sort := vc.heapOf(lv, j)
		h := vc.heapGet(name, sort)
		t := sel(h, lv.Ref)
		if lv.Space == 'E' {
			t = sel(t, lv.Idx)
		}
		for _, a := range lv.Arr {
			t = sel(t, a)
		}
		out.L[j] = vc.def(tl[j].Sort, t)
		if tl[j].Kind == kRef && vc.pure == 0 {
			b := "alloc0"
			if strings.HasSuffix(h, "@0|") || strings.HasSuffix(h, "@0") {
				b = "alloc0"
			} else if a, ok := vc.heapAlloc[h]; ok {
				b = a
			} else {
				b = vc.st.Alloc
			}
			if bound == "" {
				bound = b
			}
			vc.assume(fmt.Sprintf("(<= %s %s)", out.L[j], b))
		}
	}
	vc.typeFacts(lv.Typ, out)
	return out
}

// typeFacts assumes Go's own type invariants of a value read from memory or
// received as a parameter: slice headers are well formed, refs are allocated.
func (vc *VC) typeFacts(t types.Type, v SV) {
	if vc.pure > 0 {
		return
	}
	ls := vc.eng.layoutOf(t).L
	for j, li := range ls {
		switch li.Kind {
		case kRef:
			if vc.isU64ViewBase(t, li) {
				// a []uint64 may be the reinterpreted view of a byte array (gcU64): its reference is
				// then the negated reference of that array
				vc.assume(fmt.Sprintf("(and (<= (- 0 %s) %s) (<= %s %s))", vc.st.Alloc, v.L[j], v.L[j], vc.st.Alloc))
				break
			}
			vc.assume(fmt.Sprintf("(and (<= 0 %s) (<= %s %s))", v.L[j], v.L[j], vc.st.Alloc))
		}
		if strings.HasSuffix(li.Path, ".len") && j+1 < len(ls) && strings.HasSuffix(ls[j+1].Path, ".cap") && li.Kind == kBV {
			base, off, ln, cp := v.L[j-2], v.L[j-1], v.L[j], v.L[j+1]
			vc.assume(sliceWF(base, off, ln, cp))
		}
	}
}

// inWindow: lo <= p < lo+n, phrased on the difference so that the solver's
// arithmetic normalisation cancels the common slice offset.
func inWindow(p, lo, n string) string {
	d := "(bvsub " + p + " " + lo + ")"
	return "(and (bvsle (_ bv0 64) " + d + ") (bvslt " + d + " " + n + "))"
}

// sliceWF is Go's invariant of a slice header.
func sliceWF(base, off, ln, cp string) string {
	return fmt.Sprintf("(and (bvsle (_ bv0 64) %s) (bvsle %s %s) (bvsle (_ bv0 64) %s) (bvsle %s (_ bv4611686018427387904 64)) (bvsle %s (_ bv4611686018427387904 64)) (bvsle (_ bv0 64) (bvadd %s %s)) (=> (= %s 0) (= %s (_ bv0 64))))",
		ln, ln, cp, off, cp, off, off, cp, base, cp)
}

func (vc *VC) store(lv *LVal, v SV) {
	if lv.Space == 'V' {
		cell := append([]string{}, vc.vcells[lv.Ref]...)
		for j := range v.L {
			cell[lv.Leaf+j] = nestedStore(cell[lv.Leaf+j], lv.Arr, v.L[j])
		}
		vc.vcells[lv.Ref] = cell
		return
	}
	if lv.ByteView {
		word, h, eidx, sh := vc.byteViewWord(lv)
		vc.frameCheck(Loc{Space: 'E', TK: lv.TK, Lo: 0, Hi: 1, Ref: lv.Ref, Idx: eidx}, "store")
		nw := "(bvor (bvand " + word + " (bvnot (bvshl (_ bv255 64) " + sh + "))) (bvshl ((_ zero_extend 56) " + v.L[0] + ") " + sh + "))"
		name, sort := vc.heapOf(&LVal{Space: 'E', TK: lv.TK, ObjT: lv.ObjT, Typ: lv.ObjT}, 0)
		vc.heapSet(name, sort, sto(h, lv.Ref, sto(sel(h, lv.Ref), eidx, nw)))
		return
	}
	n := len(vc.eng.layoutOf(lv.Typ).L)
	if len(v.L) != n {
		vc.fail("internal: store of %d leaves into %s (%d leaves)", len(v.L), lv.Typ, n)
	}
	vc.frameCheck(Loc{Space: lv.Space, TK: lv.TK, Lo: lv.Leaf, Hi: lv.Leaf + n, Ref: lv.Ref, Idx: lv.Idx}, "store")
	for j := 0; j < n; j++ {
		name, sort := vc.heapOf(lv, j)
		h := vc.heapGet(name, sort)
		cur := sel(h, lv.Ref)
		if lv.Space == 'E' {
			cur = sel(cur, lv.Idx)
		}
		nv := nestedStore(cur, lv.Arr, v.L[j])
		if lv.Space == 'E' {
			nv = sto(sel(h, lv.Ref), lv.Idx, nv)
		}
		vc.heapSet(name, sort, sto(h, lv.Ref, nv))
	}
}

func nestedStore(cur string, idx []string, v string) string {
	if len(idx) == 0 {
		return v
	}
	return sto(cur, idx[0], nestedStore(sel(cur, idx[0]), idx[1:], v))
}

// ---- frames (modifies) ---------------------------------------------------------

func (vc *VC) isFreshRef(ref string) string {
	if ref == "*" {
		return "false"
	}
	// a negative reference is the word view (gcU64) of the byte array with the opposite reference
	return fmt.Sprintf("(or (> %s %s) (< %s (- 0 %s)))", ref, vc.entryAlloc, ref, vc.entryAlloc)
}

// sliceProv records how a slice value was cut from another one, so that frame
// checks can conclude window inclusion from header equalities alone instead of
// 64-bit offset arithmetic: the slice whose offset term is the key covers
// [pOff+lo, pOff+lo+rCap) with rCap <= pCap-lo (checked at the slicing site).
type sliceProv struct{ pOff, pCap, rCap string }

func (vc *VC) provChain(off string) []sliceProv {
	var out []sliceProv
	for i := 0; i < 8; i++ {
		p, ok := vc.sliceProvs[off]
		if !ok {
			break
		}
		out = append(out, p)
		off = p.pOff
	}
	return out
}

func (vc *VC) locWithin(sub, sup Loc) string {
	c := locWithin(sub, sup)
	if c == "false" || sup.WinLo == "" || sub.WinLo == "" || sup.Idx != "" || sub.Idx != "" {
		return c
	}
	// the written window [sub.WinLo, +sub.WinLen) starts at the start of a slice
	// derived from (an ancestor equal to) the covering slice
	alts := []string{c}
	if sub.ParentOff != "" {
		alts = append(alts, and(eq(sub.Ref, sup.Ref), eq(sub.ParentOff, sup.WinLo), eq(sub.ParentCap, sup.WinLen), sub.LenOK))
		for _, p := range vc.provChain(sub.ParentOff) {
			alts = append(alts, and(eq(sub.Ref, sup.Ref), eq(p.pOff, sup.WinLo), eq(p.pCap, sup.WinLen), sub.LenOK))
		}
	}
	chain := vc.provChain(sub.WinLo)
	for _, p := range chain {
		// the length bound is always the innermost slice's own capacity
		alts = append(alts, and(eq(sub.Ref, sup.Ref), eq(p.pOff, sup.WinLo), eq(p.pCap, sup.WinLen),
			"(bvsle (_ bv0 64) "+sub.WinLen+")", "(bvsle "+sub.WinLen+" "+chain[0].rCap+")"))
	}
	return or(alts...)
}

func locWithin(sub, sup Loc) string {
	if sub.Space != sup.Space || sub.TK != sup.TK {
		return "false"
	}
	if sup.Hi != 0 && (sub.Hi == 0 || sub.Lo < sup.Lo || sub.Hi > sup.Hi) {
		return "false"
	}
	c := eq(sub.Ref, sup.Ref)
	if sup.Ref == "*" {
		c = "true"
	} else if sub.Ref == "*" {
		return "false"
	}
	if sup.Idx != "" {
		if sub.Idx == "" {
			return "false"
		}
		c = and(c, eq(sub.Idx, sup.Idx))
	} else if sup.WinLo != "" {
		// the covering item is a slice window
		switch {
		case sub.Idx != "":
			c = and(c, inWindow(sub.Idx, sup.WinLo, sup.WinLen))
		case sub.WinLo != "":
			d := "(bvsub " + sub.WinLo + " " + sup.WinLo + ")"
			c = and(c, or(eq(sub.WinLen, "(_ bv0 64)"), and("(bvsle (_ bv0 64) "+d+")", "(bvsle "+d+" "+sup.WinLen+")", "(bvsle "+sub.WinLen+" (bvsub "+sup.WinLen+" "+d+"))")))
		default:
			return "false"
		}
	}
	return c
}

func (vc *VC) frameCheck(l Loc, what string) {
	if vc.pure > 0 || vc.rootModsAll {
		return
	}
	alts := []string{vc.isFreshRef(l.Ref)}
	for _, m := range vc.rootMods {
		alts = append(alts, vc.locWithin(l, m))
	}
	if l.Space == 'O' && strings.HasPrefix(l.TK, "global:") {
		// writes to package-level variables must be declared too
		alts = alts[1:]
	}
	vc.oblige("frame:"+what+":"+shortTK(l.TK), []string{"aux"}, or(alts...))
}

func shortTK(tk string) string {
	if i := strings.LastIndex(tk, "/"); i >= 0 {
		return tk[i+1:]
	}
	return tk
}

// havocLoc forgets the contents of a location set.
func (vc *VC) havocLoc(l Loc) {
	switch l.Space {
	case 'O', 'E':
		var names []string
		prefix := fmt.Sprintf("%c:%s#", l.Space, l.TK)
		lay := vc.objLayoutByTK(l.Space, l.TK)
		for j := range lay {
			if l.Hi != 0 && (j < l.Lo || j >= l.Hi) {
				continue
			}
			names = append(names, fmt.Sprintf("%s%d", prefix, j))
		}
		for k, name := range names {
			_ = k
			var j int
			fmt.Sscanf(name[len(prefix):], "%d", &j)
			ls := lay[j].Sort
			var sort string
			if l.Space == 'O' {
				sort = "(Array Int " + ls + ")"
			} else {
				sort = "(Array Int (Array (_ BitVec 64) " + ls + "))"
			}
			h := vc.heapGet(name, sort)
			if l.Ref == "*" {
				// every object / array of this type
				vc.heapSet(name, sort, vc.fresh(sort, "hvall"))
				continue
			}
			if l.Space == 'O' {
				vc.heapSet(name, sort, sto(h, l.Ref, vc.fresh(ls, "hv")))
			} else if l.Idx == "" {
				na := vc.fresh("(Array (_ BitVec 64) "+ls+")", "hv")
				if l.WinLo != "" {
					// only the slice's own window may change
					oa := vc.def("(Array (_ BitVec 64) "+ls+")", sel(h, l.Ref))
					vc.assume(fmt.Sprintf("(forall ((p!q (_ BitVec 64))) (! (=> (not %s) (= (select %s p!q) (select %s p!q))) :pattern ((select %s p!q))))",
						inWindow("p!q", l.WinLo, l.WinLen), na, oa, na))
				}
				vc.heapSet(name, sort, sto(h, l.Ref, na))
			} else {
				vc.heapSet(name, sort, sto(h, l.Ref, sto(sel(h, l.Ref), l.Idx, vc.fresh(ls, "hv"))))
			}
		}
	case 'B':
		// call counters of a function value only grow
		tn := "CB:total:" + l.TK
		h := vc.heapGet(tn, chIdxSort)
		nv := vc.fresh(bvSort(64), "cbtotal")
		vc.assume("(bvule " + sel(h, l.Ref) + " " + nv + ")")
		vc.heapSet(tn, chIdxSort, sto(h, l.Ref, nv))
		wn := "CB:with:" + l.TK
		if srt, ok := vc.heapSort[wn]; ok {
			h := vc.heapGet(wn, srt)
			inner := innerSort(srt) // (Array S (_ BitVec 64))
			na := vc.fresh(inner, "cbwith")
			ks := strings.TrimSuffix(strings.TrimPrefix(inner, "(Array "), " (_ BitVec 64))")
			vc.assume(fmt.Sprintf("(forall ((a!q %s)) (! (bvule (select (select %s %s) a!q) (select %s a!q)) :pattern ((select %s a!q))))", ks, h, l.Ref, na, na))
			vc.heapSet(wn, srt, sto(h, l.Ref, na))
		}
	case 'C':
		vc.havocChan(l)
	case 'M':
		mi := vc.eng.mapInfos[l.TK]
		if mi == nil {
			vc.fail("internal: unknown map kind %s", l.TK)
		}
		if l.Ref == "*" {
			// every map of this kind (e.g. all the buckets of an expiration map)
			vc.heapGet(mi.domName(), mi.domSort())
			nd := vc.fresh(mi.domSort(), "hvdomall")
			vc.assume(fmt.Sprintf("(= (select %s 0) ((as const (Array %s Bool)) false))", nd, mi.KSort))
			vc.heapSet(mi.domName(), mi.domSort(), nd)
			for j := range mi.VLeaves {
				vc.heapGet(mi.valName(j), mi.valSort(j))
				vc.heapSet(mi.valName(j), mi.valSort(j), vc.fresh(mi.valSort(j), "hvvalall"))
			}
			return
		}
		h := vc.heapGet(mi.domName(), mi.domSort())
		vc.heapSet(mi.domName(), mi.domSort(), sto(h, l.Ref, vc.fresh("(Array "+mi.KSort+" Bool)", "hvdom")))
		for j := range mi.VLeaves {
			h := vc.heapGet(mi.valName(j), mi.valSort(j))
			vc.heapSet(mi.valName(j), mi.valSort(j), sto(h, l.Ref, vc.fresh("(Array "+mi.KSort+" "+mi.VLeaves[j].Sort+")", "hvval")))
		}
	}
}

func (vc *VC) objLayoutByTK(space byte, tk string) []leafInfo {
	t, ok := vc.eng.tkTypes[tk]
	if !ok {
		vc.fail("internal: no type recorded for key %s", tk)
	}
	return vc.eng.layoutOf(t).L
}

// ---- maps ----------------------------------------------------------------------

type mapInfo struct {
	Key     string // "K:V" type keys
	KSort   string
	KT, VT  types.Type
	VLeaves []leafInfo
}

func (m *mapInfo) domName() string      { return "MD:" + m.Key }
func (m *mapInfo) domSort() string      { return "(Array Int (Array " + m.KSort + " Bool))" }
func (m *mapInfo) valName(j int) string { return fmt.Sprintf("MV:%s#%d", m.Key, j) }
func (m *mapInfo) valSort(j int) string {
	return "(Array Int (Array " + m.KSort + " " + m.VLeaves[j].Sort + "))"
}

func (e *Engine) mapInfoOf(t types.Type) *mapInfo {
	mt := t.Underlying().(*types.Map)
	key := typeKey(mt.Key()) + ":" + typeKey(mt.Elem())
	if mi, ok := e.mapInfos[key]; ok {
		return mi
	}
	kl := e.layoutOf(mt.Key()).L
	if len(kl) != 1 {
		panic(vcError{"map with composite key type " + mt.Key().String() + " is outside the supported subset"})
	}
	mi := &mapInfo{Key: key, KSort: kl[0].Sort, KT: mt.Key(), VT: mt.Elem(), VLeaves: e.layoutOf(mt.Elem()).L}
	e.mapInfos[key] = mi
	return mi
}

func (vc *VC) mapDom(mi *mapInfo, ref string) string {
	return sel(vc.heapGet(mi.domName(), mi.domSort()), ref)
}
func (vc *VC) mapVal(mi *mapInfo, ref string, j int) string {
	return sel(vc.heapGet(mi.valName(j), mi.valSort(j)), ref)
}

func (vc *VC) declareUF(name, sig string) {
	if !vc.uf[name] {
		vc.uf[name] = true
		vc.decls = append(vc.decls, fmt.Sprintf("(declare-fun %s %s)", name, sig))
	}
}

func (vc *VC) mcard(mi *mapInfo, dom string) string {
	f := quoteSym("mcard:" + mi.KSort)
	vc.declareUF(f, fmt.Sprintf("((Array %s Bool)) (_ BitVec 64)", mi.KSort))
	return "(" + f + " " + dom + ")"
}

func (vc *VC) msum(mi *mapInfo, dom, val string) string {
	f := quoteSym("msum:" + mi.KSort)
	vc.declareUF(f, fmt.Sprintf("((Array %s Bool) (Array %s (_ BitVec 64))) (_ BitVec 64)", mi.KSort, mi.KSort))
	return "(" + f + " " + dom + " " + val + ")"
}

func (mi *mapInfo) summable() bool {
	return len(mi.VLeaves) == 1 && mi.VLeaves[0].Kind == kBV && mi.VLeaves[0].W == 64
}

// mapWrite performs m[k] = v (present=true) or delete(m,k) (present=false) and
// emits the ground instances of the finite-map sum/cardinality theory.
func (vc *VC) mapWrite(mi *mapInfo, ref, k string, v []string, present bool) {
	vc.frameCheck(Loc{Space: 'M', TK: mi.Key, Ref: ref}, "map")
	dom := vc.def("(Array "+mi.KSort+" Bool)", vc.mapDom(mi, ref))
	was := vc.def("Bool", sel(dom, k))
	var ndom string
	if present {
		ndom = vc.def("(Array "+mi.KSort+" Bool)", sto(dom, k, "true"))
	} else {
		ndom = vc.def("(Array "+mi.KSort+" Bool)", sto(dom, k, "false"))
	}
	// cardinality
	one := bvLitI(1, 64)
	if present {
		vc.assume(eq(vc.mcard(mi, ndom), ite(was, vc.mcard(mi, dom), "(bvadd "+vc.mcard(mi, dom)+" "+one+")")))
	} else {
		vc.assume(eq(vc.mcard(mi, ndom), ite(was, "(bvsub "+vc.mcard(mi, dom)+" "+one+")", vc.mcard(mi, dom))))
	}
	vc.assume("(bvsle (_ bv0 64) " + vc.mcard(mi, ndom) + ")")
	if mi.summable() {
		val := vc.def("(Array "+mi.KSort+" (_ BitVec 64))", vc.mapVal(mi, ref, 0))
		oldc := ite(was, sel(val, k), bvLitI(0, 64))
		nval := val
		if present {
			nval = vc.def("(Array "+mi.KSort+" (_ BitVec 64))", sto(val, k, v[0]))
			vc.assume(eq(vc.msum(mi, ndom, nval), "(bvadd (bvsub "+vc.msum(mi, dom, val)+" "+oldc+") "+v[0]+")"))
		} else {
			vc.assume(eq(vc.msum(mi, ndom, nval), "(bvsub "+vc.msum(mi, dom, val)+" "+oldc+")"))
		}
	}
	h := vc.heapGet(mi.domName(), mi.domSort())
	vc.heapSet(mi.domName(), mi.domSort(), sto(h, ref, ndom))
	if present {
		for j := range mi.VLeaves {
			hv := vc.heapGet(mi.valName(j), mi.valSort(j))
			vc.heapSet(mi.valName(j), mi.valSort(j), sto(hv, ref, sto(sel(hv, ref), k, v[j])))
		}
	}
}

// ---- state merging -------------------------------------------------------------

func (vc *VC) mergeStates(ss []*State) *State {
	if len(ss) == 1 {
		return ss[0].clone()
	}
	out := &State{Heap: map[string]string{}, Locks: map[string]int{}, Ghost: map[string]string{}, Held: map[string]*heldLock{}}
	var conds []string
	for _, s := range ss {
		conds = append(conds, s.Cond)
	}
	out.Cond = vc.def("Bool", or(conds...))
	names := map[string]bool{}
	for _, s := range ss {
		for k := range s.Heap {
			names[k] = true
		}
	}
	var ks []string
	for k := range names {
		ks = append(ks, k)
	}
	sort.Strings(ks)
	get := func(s *State, k string) string {
		if t, ok := s.Heap[k]; ok {
			return t
		}
		return vc.heapInit(k, vc.heapSort[k])
	}
	for _, k := range ks {
		t := get(ss[len(ss)-1], k)
		for i := len(ss) - 2; i >= 0; i-- {
			t = ite(ss[i].Cond, get(ss[i], k), t)
		}
		out.Heap[k] = vc.def(vc.heapSort[k], t)
	}
	a := ss[len(ss)-1].Alloc
	for i := len(ss) - 2; i >= 0; i-- {
		a = ite(ss[i].Cond, ss[i].Alloc, a)
	}
	out.Alloc = vc.def("Int", a)
	for k, v := range ss[0].Locks {
		all := true
		for _, s := range ss[1:] {
			if s.Locks[k] != v {
				all = false
			}
		}
		if all {
			out.Locks[k] = v
			if h, ok := ss[0].Held[k]; ok {
				out.Held[k] = h
			}
		}
	}
	gn := map[string]bool{}
	for _, s := range ss {
		for k := range s.Ghost {
			gn[k] = true
		}
	}
	gget := func(s *State, k string) string {
		if v, ok := s.Ghost[k]; ok && v != "" {
			return v
		}
		return "1.0" // "now": no clock reading yet on this path
	}
	for k := range gn {
		t := gget(ss[len(ss)-1], k)
		for i := len(ss) - 2; i >= 0; i-- {
			t = ite(ss[i].Cond, gget(ss[i], k), t)
		}
		out.Ghost[k] = t
	}
	return out
}

// byteViewWord returns the 64-bit word a byte view points into, the heap term,
// the element index and the bit shift of the byte, and obliges the access to stay
// inside the slice the pointer was derived from.
func (vc *VC) byteViewWord(lv *LVal) (word, h, eidx, shift string) {
	name, sort := vc.heapOf(&LVal{Space: 'E', TK: lv.TK, ObjT: lv.ObjT, Typ: lv.ObjT}, 0)
	h = vc.heapGet(name, sort)
	eidx = vc.def(bvSort(64), "(bvadd "+lv.Idx+" (bvlshr "+lv.BOff+" (_ bv3 64)))")
	if lv.Lim != "" {
		vc.oblige("unsafe:byte-in-slice", []string{"aux"}, and("(bvule "+lv.Idx+" "+eidx+")", "(bvult "+eidx+" "+lv.Lim+")"))
	}
	word = vc.def(bvSort(64), sel(sel(h, lv.Ref), eidx))
	shift = vc.def(bvSort(64), "(bvshl (bvand "+lv.BOff+" (_ bv7 64)) (_ bv3 64))")
	return
}

// isU64ViewBase: the leaf is the base reference of a slice that may be a word view (gcU64) of a byte
// array: a value of the named type z.node anywhere, or a []uint64 inside z/btree.go (what
// BytesToUint64Slice returns).  Every other []uint64 (the Bloom filter's bit set, ...) is an
// ordinary allocated array.
func (vc *VC) isU64ViewBase(t types.Type, li leafInfo) bool {
	if !isU64SliceBase(t, li) {
		return false
	}
	if n, ok := t.(*types.Named); ok {
		return n.Obj().Name() == "node" && n.Obj().Pkg() != nil && strings.HasSuffix(n.Obj().Pkg().Path(), "/z")
	}
	if vc.root != nil && vc.eng != nil && vc.eng.fset != nil {
		return strings.HasSuffix(vc.eng.fset.Position(vc.root.Pos()).Filename, "/z/btree.go")
	}
	return false
}

// isU64SliceBase: the leaf is the base reference of a value whose type is a slice of uint64.
func isU64SliceBase(t types.Type, li leafInfo) bool {
	sl, ok := t.Underlying().(*types.Slice)
	if !ok {
		return false
	}
	b, ok := sl.Elem().Underlying().(*types.Basic)
	return ok && b.Kind() == types.Uint64 && !strings.Contains(li.Path, ".len") && !strings.Contains(li.Path, ".cap")
}
