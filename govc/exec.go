package main

import (
	"fmt"
	"go/ast"
	"go/constant"
	"go/token"
	"go/types"
	"math/big"
	"os"
	"sort"
	"strings"

	"golang.org/x/tools/go/ssa"
)

type deferred struct {
	call *ssa.CallCommon
	args []SV
	fnv  SV
	pos  token.Pos
}

type retInfo struct {
	st   *State
	vals []SV
}

type loopInfo struct {
	ord      int
	header   *ssa.BasicBlock
	blocks   map[*ssa.BasicBlock]bool
	backFrom []*ssa.BasicBlock
	headSt   *State    // state right after havoc+assume at the header
	decAt    string    // value of the decreases measure at the header
	rangeIt  ssa.Value // map range iterator, if this is a map range loop
}

type Frame struct {
	fn       *ssa.Function
	vals     map[ssa.Value]SV
	args     []SV
	bind     []SV
	edges    map[[2]int]*State
	defers   []deferred
	rets     []retInfo
	fi       *FuncInfo
	isRoot   bool
	loops    map[*ssa.BasicBlock]*loopInfo
	oldRun   *Frame
	oldRunAt map[string]*Frame
	oldHeap  *State
	parent   *Frame
	iters    map[ssa.Value]*mapIter
}

type mapIter struct {
	mi         *mapInfo
	ref        string
	visited    string // term: (Array K Bool)
	keyT, valT types.Type
}

// execFunc symbolically executes fn on args in the current state and returns the
// merged results.  In pure mode it is used to evaluate specification functions.
func (vc *VC) execFunc(fn *ssa.Function, args []SV, bind []SV, fi *FuncInfo, isRoot bool, oldHeap *State) []SV {
	if fn.Blocks == nil {
		vc.fail("function %s has no body (external); give it a trusted contract or an intrinsic model", fn)
	}
	for _, f := range vc.stack {
		if f == fn && !isRoot {
			vc.fail("recursive call of %s reached by inlining; the function needs its own contract", fn)
		}
	}
	if len(vc.stack) > 24 {
		vc.fail("inlining depth exceeded at %s", fn)
	}
	vc.stack = append(vc.stack, fn)
	defer func() { vc.stack = vc.stack[:len(vc.stack)-1] }()

	fr := &Frame{fn: fn, vals: map[ssa.Value]SV{}, args: args, bind: bind, edges: map[[2]int]*State{}, fi: fi, isRoot: isRoot,
		loops: map[*ssa.BasicBlock]*loopInfo{}, oldHeap: oldHeap, parent: vc.curFrame, iters: map[ssa.Value]*mapIter{}}
	saved := vc.curFrame
	vc.curFrame = fr
	defer func() { vc.curFrame = saved; vc.lastFrame = fr }()
	for i, p := range fn.Params {
		if i >= len(args) {
			vc.fail("internal: too few arguments for %s", fn)
		}
		fr.vals[p] = args[i]
	}
	for i, fv := range fn.FreeVars {
		if i >= len(bind) {
			vc.fail("internal: too few bindings for %s", fn)
		}
		fr.vals[fv] = bind[i]
	}
	vc.findLoops(fr)
	order := vc.blockOrder(fr)
	callerCond := vc.st.Cond
	if vc.pure > 0 {
		// conditions inside a specification function only select phi values
		vc.st = vc.st.clone()
		vc.st.Cond = "true"
	}
	entrySt := vc.st
	if _, pathMode := func() (string, bool) {
		if isRoot && fi != nil {
			v, ok := fi.C.Attrs["paths"]
			return v, ok
		}
		return "", false
	}(); pathMode {
		// path-sensitive exploration of the function under verification: no state merging
		// at joins, one obligation per path (smaller, case-free queries)
		visits := 0
		var explore func(b *ssa.BasicBlock, from *ssa.BasicBlock, st *State)
		explore = func(b *ssa.BasicBlock, from *ssa.BasicBlock, st *State) {
			visits++
			if visits > 600 {
				vc.fail("path explosion in %s (more than 600 block visits)", fn)
			}
			vc.st = st.clone()
			if from != nil {
				for _, ins2 := range b.Instrs {
					phi, ok := ins2.(*ssa.Phi)
					if !ok {
						break
					}
					for i, p := range b.Preds {
						if p == from {
							fr.vals[phi] = vc.val(fr, phi.Edges[i])
						}
					}
				}
			}
			if li := fr.loops[b]; li != nil {
				vc.loopHead(fr, li, b)
			}
			// drop edges of earlier visits so that only this visit's successors are followed
			for _, sblk := range b.Succs {
				delete(fr.edges, [2]int{b.Index, sblk.Index})
			}
			vc.execBlock(fr, b)
			for _, sblk := range b.Succs {
				if e, ok := fr.edges[[2]int{b.Index, sblk.Index}]; ok {
					if e.Cond == "false" {
						continue
					}
					explore(sblk, b, e)
				}
			}
		}
		explore(fn.Blocks[0], nil, entrySt)
		order = nil
	}
	for _, b := range order {
		var st *State
		if b == fn.Blocks[0] {
			st = entrySt
		} else {
			var ins []*State
			var preds []*ssa.BasicBlock
			for _, p := range b.Preds {
				if s, ok := fr.edges[[2]int{p.Index, b.Index}]; ok {
					if li := fr.loops[b]; li != nil && li.blocks[p] && p.Index != -1 && vc.isBackEdge(fr, p, b) {
						continue
					}
					ins = append(ins, s)
					preds = append(preds, p)
				}
			}
			if len(ins) == 0 {
				continue // unreachable (e.g. after panic)
			}
			st = vc.mergeStates(ins)
			// phis
			vc.st = st
			for _, ins2 := range b.Instrs {
				phi, ok := ins2.(*ssa.Phi)
				if !ok {
					break
				}
				fr.vals[phi] = vc.evalPhi(fr, phi, b, preds)
			}
		}
		vc.st = st
		if li := fr.loops[b]; li != nil {
			vc.loopHead(fr, li, b)
		}
		vc.execBlock(fr, b)
	}
	// merge returns
	if len(fr.rets) == 0 {
		// function never returns normally on any path (all paths panic)
		vc.st = &State{Cond: "false", Heap: map[string]string{}, Alloc: entrySt.Alloc, Locks: map[string]int{}, Ghost: map[string]string{}}
		var zero []SV
		res := fn.Signature.Results()
		for i := 0; i < res.Len(); i++ {
			zero = append(zero, vc.zeroValue(res.At(i).Type()))
		}
		return zero
	}
	var sts []*State
	for _, r := range fr.rets {
		sts = append(sts, r.st)
	}
	merged := vc.mergeStates(sts)
	if vc.pure > 0 {
		// a specification function always returns: its exit condition is its entry condition
		merged.Cond = callerCond
	}
	nres := len(fr.rets[0].vals)
	out := make([]SV, nres)
	for i := 0; i < nres; i++ {
		v := fr.rets[len(fr.rets)-1].vals[i]
		res := SV{L: append([]string{}, v.L...), LV: v.LV, Fn: v.Fn, Bind: v.Bind, Box: v.Box, BoxT: v.BoxT}
		for k := len(fr.rets) - 2; k >= 0; k-- {
			w := fr.rets[k].vals[i]
			for j := range res.L {
				res.L[j] = ite(fr.rets[k].st.Cond, w.L[j], res.L[j])
			}
			if w.LV != res.LV {
				res.LV = nil
			}
		}
		sorts := vc.eng.layoutOf(fn.Signature.Results().At(i).Type()).L
		vc.st = merged
		for j := range res.L {
			res.L[j] = vc.def(sorts[j].Sort, res.L[j])
		}
		out[i] = res
	}
	vc.st = merged
	return out
}

func (vc *VC) isBackEdge(fr *Frame, from, to *ssa.BasicBlock) bool {
	return to.Dominates(from)
}

func (vc *VC) findLoops(fr *Frame) {
	fn := fr.fn
	var headers []*ssa.BasicBlock
	seen := map[*ssa.BasicBlock]bool{}
	for _, b := range fn.Blocks {
		for _, s := range b.Succs {
			if s.Dominates(b) { // back edge b -> s
				if !seen[s] {
					seen[s] = true
					headers = append(headers, s)
					fr.loops[s] = &loopInfo{header: s, blocks: map[*ssa.BasicBlock]bool{s: true}}
					// a map range loop: its header holds the Next of a Range over a map
					if os.Getenv("GOVC_NO_RANGE_HAVOC") == "" {
						for _, ins := range s.Instrs {
							if nx, ok := ins.(*ssa.Next); ok && !nx.IsString {
								if rg, ok := nx.Iter.(*ssa.Range); ok {
									if _, isMap := rg.X.Type().Underlying().(*types.Map); isMap {
										fr.loops[s].rangeIt = rg
									}
								}
							}
						}
					}
				}
				li := fr.loops[s]
				li.backFrom = append(li.backFrom, b)
				// natural loop: all blocks that reach b without passing s
				var stack []*ssa.BasicBlock
				if !li.blocks[b] {
					li.blocks[b] = true
					stack = append(stack, b)
				}
				for len(stack) > 0 {
					x := stack[len(stack)-1]
					stack = stack[:len(stack)-1]
					for _, p := range x.Preds {
						if !li.blocks[p] {
							li.blocks[p] = true
							stack = append(stack, p)
						}
					}
				}
			}
		}
	}
	sort.Slice(headers, func(i, j int) bool { return headers[i].Index < headers[j].Index })
	// loop ordinals follow source order.  go/ssa creates the blocks of a loop
	// statement when it reaches the statement, so the smallest block index among a
	// loop's own blocks orders loops by source position.
	minIdx := func(li *loopInfo) int {
		m := 1 << 30
		for b := range li.blocks {
			if b.Index < m {
				m = b.Index
			}
		}
		return m
	}
	sort.SliceStable(headers, func(i, j int) bool { return minIdx(fr.loops[headers[i]]) < minIdx(fr.loops[headers[j]]) })
	for i, h := range headers {
		fr.loops[h].ord = i + 1
	}
}

// blockOrder: reverse postorder of the CFG with back edges removed.
func (vc *VC) blockOrder(fr *Frame) []*ssa.BasicBlock {
	fn := fr.fn
	visited := map[*ssa.BasicBlock]bool{}
	var post []*ssa.BasicBlock
	var dfs func(b *ssa.BasicBlock)
	dfs = func(b *ssa.BasicBlock) {
		visited[b] = true
		for i := len(b.Succs) - 1; i >= 0; i-- {
			s := b.Succs[i]
			if s.Dominates(b) {
				continue
			}
			if !visited[s] {
				dfs(s)
			}
		}
		post = append(post, b)
	}
	dfs(fn.Blocks[0])
	for i, j := 0, len(post)-1; i < j; i, j = i+1, j-1 {
		post[i], post[j] = post[j], post[i]
	}
	return post
}

func (vc *VC) evalPhi(fr *Frame, phi *ssa.Phi, b *ssa.BasicBlock, preds []*ssa.BasicBlock) SV {
	sorts := vc.eng.layoutOf(phi.Type()).L
	var res SV
	first := true
	for k := len(preds) - 1; k >= 0; k-- {
		p := preds[k]
		var idx int
		for i, q := range b.Preds {
			if q == p {
				idx = i
			}
		}
		v := vc.val(fr, phi.Edges[idx])
		c := fr.edges[[2]int{p.Index, b.Index}].Cond
		if first {
			res = SV{L: append([]string{}, v.L...), LV: v.LV, Fn: v.Fn, Bind: v.Bind}
			first = false
			continue
		}
		for j := range res.L {
			res.L[j] = ite(c, v.L[j], res.L[j])
		}
		if v.LV != res.LV {
			res.LV = nil
		}
		if v.Fn != res.Fn {
			res.Fn = nil
		}
	}
	for j := range res.L {
		res.L[j] = vc.def(sorts[j].Sort, res.L[j])
	}
	return res
}

func (vc *VC) zeroValue(t types.Type) SV {
	ls := vc.eng.layoutOf(t).L
	out := SV{L: make([]string, len(ls))}
	for j, li := range ls {
		out.L[j] = zeroOfSort(li)
		vc.ensureZero(li)
	}
	return out
}

func (vc *VC) ensureZero(li leafInfo) {
	s := li.Sort
	for strings.HasPrefix(s, "(Array (_ BitVec 64) ") {
		s = strings.TrimSuffix(strings.TrimPrefix(s, "(Array (_ BitVec 64) "), ")")
	}
	if !strings.HasPrefix(s, "(") && s != "Bool" && s != "Int" && s != "Real" {
		vc.needZero(s)
	}
}

func (vc *VC) needZero(sort string) {
	n := "zero_" + sort
	if !vc.declared[n] {
		vc.declared[n] = true
		vc.decls = append(vc.decls, fmt.Sprintf("(declare-const %s %s)", n, sort))
	}
}

func (vc *VC) freshValue(t types.Type, hint string) SV {
	ls := vc.eng.layoutOf(t).L
	out := SV{L: make([]string, len(ls))}
	for j, li := range ls {
		out.L[j] = vc.fresh(li.Sort, hint+li.Path)
	}
	vc.typeFacts(t, out)
	return out
}

func (vc *VC) constValue(c *ssa.Const) SV {
	t := c.Type()
	if c.Value == nil {
		return vc.zeroValue(t)
	}
	ls := vc.eng.layoutOf(t).L
	if len(ls) != 1 {
		vc.fail("constant of composite type %s", t)
	}
	li := ls[0]
	switch li.Kind {
	case kBV:
		v := constant.ToInt(c.Value)
		bi, ok := new(big.Int).SetString(v.ExactString(), 10)
		if !ok {
			vc.fail("bad integer constant %s", c.Value)
		}
		return scalar(bvLit(bi, li.W))
	case kBool:
		if constant.BoolVal(c.Value) {
			return scalar("true")
		}
		return scalar("false")
	case kUninterp:
		key := li.Sort + ":" + c.Value.ExactString()
		if n, ok := vc.strLits[key]; ok {
			return scalar(n)
		}
		vc.n++
		n := fmt.Sprintf("lit!%d", vc.n)
		vc.decls = append(vc.decls, fmt.Sprintf("(declare-const %s %s) ; %s", n, li.Sort, strings.ReplaceAll(c.Value.ExactString(), "\n", " ")))
		vc.strLits[key] = n
		return scalar(n)
	}
	vc.fail("unsupported constant %s of type %s", c, t)
	return SV{}
}

func (vc *VC) val(fr *Frame, v ssa.Value) SV {
	switch x := v.(type) {
	case *ssa.Const:
		return vc.constValue(x)
	case *ssa.Global:
		tk := "global:" + x.Pkg.Pkg.Path() + "." + x.Name()
		et := x.Type().(*types.Pointer).Elem()
		vc.eng.tkTypes[tk] = et
		return SV{L: []string{"0"}, LV: &LVal{Space: 'O', TK: tk, Typ: et, ObjT: et, Ref: "0"}}
	case *ssa.Function:
		return SV{L: []string{"0"}, Fn: x}
	case *ssa.Builtin:
		return SV{L: []string{"0"}}
	}
	if sv, ok := fr.vals[v]; ok {
		return sv
	}
	vc.fail("internal: value %s (%T) of %s not computed", v.Name(), v, fr.fn)
	return SV{}
}

// lvalOf returns the location a pointer value denotes.
func (vc *VC) lvalOf(fr *Frame, p ssa.Value) *LVal {
	sv := vc.val(fr, p)
	return vc.lvalOfSV(sv, p.Type())
}

func (vc *VC) lvalOfSV(sv SV, pt types.Type) *LVal {
	if sv.LV != nil {
		return sv.LV
	}
	ptr, ok := pt.Underlying().(*types.Pointer)
	if !ok {
		vc.fail("internal: lvalOf on non-pointer %s", pt)
	}
	et := ptr.Elem()
	tk := typeKey(et)
	vc.eng.tkTypes[tk] = et
	return &LVal{Space: 'O', TK: tk, Typ: et, ObjT: et, Ref: sv.L[0]}
}

func (vc *VC) nilCheck(lv *LVal, what string) {
	if lv.Space == 'O' && lv.Ref != "0" && !strings.HasPrefix(lv.TK, "global:") {
		vc.oblige("nil:"+what, []string{"aux"}, not(eq(lv.Ref, "0")))
	}
}

func (vc *VC) execBlock(fr *Frame, b *ssa.BasicBlock) {
	for _, ins := range b.Instrs {
		if _, ok := ins.(*ssa.Phi); ok {
			continue
		}
		vc.execInstr(fr, b, ins)
	}
}

func (vc *VC) setEdge(fr *Frame, from, to *ssa.BasicBlock, cond string) {
	st := vc.st.clone()
	st.Cond = vc.def("Bool", and(vc.st.Cond, cond))
	if li := fr.loops[to]; li != nil && vc.isBackEdge(fr, from, to) {
		saved := vc.st
		vc.st = st
		vc.loopBack(fr, li, from)
		vc.st = saved
		return
	}
	fr.edges[[2]int{from.Index, to.Index}] = st
}

func (vc *VC) intInfo(t types.Type) (w int, signed bool) {
	ls := vc.eng.layoutOf(t).L
	if len(ls) != 1 || ls[0].Kind != kBV {
		vc.fail("expected integer type, got %s", t)
	}
	return ls[0].W, ls[0].Signed
}

func ext(term string, from, to int, signed bool) string {
	if from == to {
		return term
	}
	if from > to {
		return fmt.Sprintf("((_ extract %d 0) %s)", to-1, term)
	}
	if signed {
		return fmt.Sprintf("((_ sign_extend %d) %s)", to-from, term)
	}
	return fmt.Sprintf("((_ zero_extend %d) %s)", to-from, term)
}

func (vc *VC) idx64(fr *Frame, v ssa.Value) (term string, signed bool) {
	sv := vc.val(fr, v)
	w, s := vc.intInfo(v.Type())
	return ext(sv.L[0], w, 64, s), s
}

func (vc *VC) boundsCheck(idx string, signed bool, ln string, what string) {
	if signed {
		vc.oblige("index:"+what, []string{"aux"}, and("(bvsle (_ bv0 64) "+idx+")", "(bvslt "+idx+" "+ln+")"))
	} else {
		vc.oblige("index:"+what, []string{"aux"}, "(bvult "+idx+" "+ln+")")
	}
}

func (vc *VC) execInstr(fr *Frame, b *ssa.BasicBlock, ins ssa.Instruction) {
	if ins.Pos().IsValid() {
		p := vc.eng.fset.Position(ins.Pos())
		vc.curPos = fmt.Sprintf("%s:%d", shortTK(p.Filename), p.Line)
	}
	defer func() {
		if r := recover(); r != nil {
			if e, ok := r.(vcError); ok && !strings.Contains(e.msg, " at ") {
				pos := vc.eng.fset.Position(ins.Pos())
				panic(vcError{fmt.Sprintf("%s [in %s at %s:%d: %s]", e.msg, fr.fn.Name(), shortTK(pos.Filename), pos.Line, ins)})
			}
			panic(r)
		}
	}()
	switch x := ins.(type) {
	case *ssa.DebugRef:
	case *ssa.BinOp:
		fr.vals[x] = vc.binop(fr, x)
	case *ssa.UnOp:
		fr.vals[x] = vc.unop(fr, x)
	case *ssa.Convert:
		fr.vals[x] = vc.convert(fr, x)
	case *ssa.ChangeType:
		fr.vals[x] = vc.val(fr, x.X)
	case *ssa.ChangeInterface:
		fr.vals[x] = vc.val(fr, x.X)
	case *ssa.MakeInterface:
		sv := vc.val(fr, x.X)
		ls := vc.eng.layoutOf(x.X.Type()).L
		if len(ls) == 1 && ls[0].Kind == kRef {
			fr.vals[x] = SV{L: []string{sv.L[0]}, LV: sv.LV, Fn: sv.Fn, Bind: sv.Bind, Box: &sv, BoxT: x.X.Type()}
		} else {
			r := "0"
			if vc.inline == 0 && vc.pure == 0 {
				r = vc.fresh("Int", "iface")
			}
			fr.vals[x] = SV{L: []string{r}, Box: &sv, BoxT: x.X.Type()}
		}
	case *ssa.TypeAssert:
		sv := vc.val(fr, x.X)
		var out SV
		if sv.Box != nil && types.Identical(sv.BoxT, x.AssertedType) {
			out = *sv.Box
		} else {
			ls := vc.eng.layoutOf(x.AssertedType).L
			if len(ls) == 1 && ls[0].Kind == kRef {
				out = SV{L: []string{sv.L[0]}}
			} else {
				out = vc.freshValue(x.AssertedType, "assert")
			}
		}
		if x.CommaOk {
			okv := vc.fresh("Bool", "assertok")
			fr.vals[x] = SV{L: append(append([]string{}, out.L...), okv)}
		} else {
			fr.vals[x] = out
		}
	case *ssa.Alloc:
		fr.vals[x] = vc.alloc(x.Type().(*types.Pointer).Elem(), x.Comment)
	case *ssa.FieldAddr:
		lv := vc.lvalOf(fr, x.X)
		vc.nilCheck(lv, "field")
		st := lv.Typ.Underlying().(*types.Struct)
		lo, _ := vc.eng.fieldRange(st, x.Field)
		nl := *lv
		nl.Leaf = lv.Leaf + lo
		nl.Typ = st.Field(x.Field).Type()
		fr.vals[x] = SV{L: []string{"0"}, LV: &nl}
	case *ssa.Field:
		sv := vc.val(fr, x.X)
		st := x.X.Type().Underlying().(*types.Struct)
		lo, hi := vc.eng.fieldRange(st, x.Field)
		fr.vals[x] = SV{L: sv.L[lo:hi]}
	case *ssa.Extract:
		sv := vc.val(fr, x.Tuple)
		tt := x.Tuple.Type().(*types.Tuple)
		lo, hi := vc.eng.tupleRange(tt, x.Index)
		out := SV{L: sv.L[lo:hi]}
		if len(sv.Bind) == tt.Len() { // per-component metadata carried in Bind
			m := sv.Bind[x.Index]
			out.LV, out.Fn, out.Bind, out.Box, out.BoxT = m.LV, m.Fn, m.Bind, m.Box, m.BoxT
		}
		fr.vals[x] = out
	case *ssa.IndexAddr:
		fr.vals[x] = vc.indexAddr(fr, x)
	case *ssa.Index:
		sv := vc.val(fr, x.X)
		idx, signed := vc.idx64(fr, x.Index)
		switch at := x.X.Type().Underlying().(type) {
		case *types.Array:
			vc.boundsCheck(idx, signed, bvLitI(at.Len(), 64), "array")
			ls := vc.eng.layoutOf(at.Elem()).L
			out := SV{L: make([]string, len(ls))}
			for j := range ls {
				out.L[j] = vc.def(ls[j].Sort, sel(sv.L[j], idx))
			}
			vc.typeFacts(at.Elem(), out)
			fr.vals[x] = out
		default:
			vc.fail("Index on %s unsupported", x.X.Type())
		}
	case *ssa.Lookup:
		fr.vals[x] = vc.lookup(fr, x)
	case *ssa.Slice:
		fr.vals[x] = vc.sliceOp(fr, x)
	case *ssa.MakeSlice:
		ln, _ := vc.idx64(fr, x.Len)
		cp, _ := vc.idx64(fr, x.Cap)
		vc.oblige("makeslice", []string{"aux"}, and("(bvsle (_ bv0 64) "+ln+")", "(bvsle "+ln+" "+cp+")"))
		et := x.Type().Underlying().(*types.Slice).Elem()
		base := vc.newRef("mk")
		vc.initElems(et, base)
		fr.vals[x] = SV{L: []string{base, bvLitI(0, 64), ln, cp}}
	case *ssa.MakeMap:
		mi := vc.eng.mapInfoOf(x.Type())
		ref := vc.newRef("map")
		h := vc.heapGet(mi.domName(), mi.domSort())
		empty := fmt.Sprintf("((as const (Array %s Bool)) false)", mi.KSort)
		vc.heapSet(mi.domName(), mi.domSort(), sto(h, ref, empty))
		vc.assume(eq(vc.mcard(mi, empty), bvLitI(0, 64)))
		if mi.summable() {
			vc.assume(eq(vc.msum(mi, empty, vc.mapVal(mi, ref, 0)), bvLitI(0, 64)))
		}
		fr.vals[x] = scalar(ref)
	case *ssa.MakeChan:
		ref := vc.newRef("chan")
		fr.vals[x] = scalar(ref)
		vc.chanInitImpl(ref, x, fr)
	case *ssa.MakeClosure:
		var bind []SV
		for _, bv := range x.Bindings {
			bind = append(bind, vc.val(fr, bv))
		}
		r := "0"
		if vc.inline == 0 && vc.pure == 0 {
			r = vc.newRef("closure")
		}
		fr.vals[x] = SV{L: []string{r}, Fn: x.Fn.(*ssa.Function), Bind: bind}
	case *ssa.Store:
		lv := vc.lvalOf(fr, x.Addr)
		vc.nilCheck(lv, "store")
		vc.guardCheck(lv, true)
		vc.store(lv, vc.val(fr, x.Val))
		vc.noteStoreMeta(fr, lv, vc.val(fr, x.Val))
	case *ssa.MapUpdate:
		mi := vc.eng.mapInfoOf(x.Map.Type())
		ref := vc.val(fr, x.Map).L[0]
		vc.oblige("nilmap", []string{"aux"}, not(eq(ref, "0")))
		vc.guardCheckMap(fr, x.Map, true)
		vc.mapWrite(mi, ref, vc.val(fr, x.Key).L[0], vc.val(fr, x.Value).L, true)
	case *ssa.Call:
		if fr.isRoot && fr.fi != nil && len(fr.fi.C.Anchors) > 0 {
			vc.checkAnchors(fr, b, x)
		}
		res := vc.call(fr, x.Common(), x, x.Pos())
		fr.vals[x] = res
	case *ssa.Defer:
		if b != fr.fn.Blocks[0] && vc.st.Cond != fr.edgesEntryCond() {
			// conditional defers are outside the subset unless on the entry path
		}
		var args []SV
		for _, a := range x.Call.Args {
			args = append(args, vc.val(fr, a))
		}
		d := deferred{call: &x.Call, args: args, pos: x.Pos()}
		if !x.Call.IsInvoke() {
			d.fnv = vc.val(fr, x.Call.Value)
		}
		fr.defers = append(fr.defers, d)
	case *ssa.RunDefers:
		for i := len(fr.defers) - 1; i >= 0; i-- {
			d := fr.defers[i]
			vc.callWith(fr, d.call, d.args, &d.fnv, nil, d.pos)
		}
	case *ssa.Go:
		vc.goStmt(fr, x)
	case *ssa.Send:
		vc.chanSend(fr, x.Chan, vc.val(fr, x.X), true, x.Pos())
	case *ssa.Select:
		fr.vals[x] = vc.selectStmt(fr, x)
	case *ssa.Range:
		fr.vals[x] = vc.rangeInit(fr, x)
	case *ssa.Next:
		fr.vals[x] = vc.rangeNext(fr, x)
	case *ssa.Panic:
		vc.panicReached(fr, "panic")
	case *ssa.If:
		c := vc.val(fr, x.Cond).L[0]
		c = vc.def("Bool", c)
		vc.setEdge(fr, b, b.Succs[0], c)
		vc.setEdge(fr, b, b.Succs[1], not(c))
	case *ssa.Jump:
		vc.setEdge(fr, b, b.Succs[0], "true")
	case *ssa.Return:
		var vals []SV
		for _, r := range x.Results {
			vals = append(vals, vc.val(fr, r))
		}
		if fr.isRoot {
			if _, pm := fr.fi.C.Attrs["paths"]; pm && fr.fi != nil {
				vc.smokePath(fmt.Sprintf("return%d", len(fr.rets)+1))
			} else {
				vc.smoke(fmt.Sprintf("return%d", len(fr.rets)+1))
			}
			vc.retBlock, vc.retInstr = b, x
			vc.rootReturn(fr, vals)
		}
		fr.rets = append(fr.rets, retInfo{st: vc.st.clone(), vals: vals})
	default:
		vc.fail("unsupported instruction %T", ins)
	}
}

func (fr *Frame) edgesEntryCond() string { return "" }

func (vc *VC) panicReached(fr *Frame, what string) {
	if vc.pure > 0 {
		return
	}
	// a panic is an obligation "unreachable", unless the contract allows it under a
	// condition on the entry state (panics_if): then the obligation is that condition
	goal := "false"
	if fi := vc.fi; fi != nil && len(fi.C.PanicsIf) > 0 {
		root := vc.curFrame
		for root != nil && root.parent != nil {
			root = root.parent
		}
		if root != nil && root.isRoot {
			var alts []string
			for _, pc := range fi.C.PanicsIf {
				alts = append(alts, vc.evalClause(pc.GoName, fi.C.Pkg, vc.clauseArgsFrame(root), vc.entry, vc.entry))
			}
			goal = or(alts...)
		}
	}
	vc.oblige("unreachable:"+what, []string{"aux"}, goal)
	vc.st = vc.st.clone()
	vc.st.Cond = "false"
}

func (vc *VC) newRef(hint string) string {
	if vc.pure > 0 {
		vc.fail("allocation inside a specification expression")
	}
	r := vc.def("Int", "(+ "+vc.st.Alloc+" 1)")
	// name the watermark to keep terms small
	vc.st.Alloc = r
	return r
}

func (vc *VC) alloc(t types.Type, hint string) SV {
	if vc.pure > 0 {
		// specification code: a virtual cell that lives outside the heap
		vc.n++
		id := fmt.Sprintf("vcell!%d", vc.n)
		if vc.vcells == nil {
			vc.vcells = map[string][]string{}
		}
		vc.vcells[id] = vc.zeroValue(t).L
		tk := typeKey(t)
		vc.eng.tkTypes[tk] = t
		return SV{L: []string{"0"}, LV: &LVal{Space: 'V', TK: tk, Typ: t, ObjT: t, Ref: id}}
	}
	ref := vc.newRef(hint)
	tk := typeKey(t)
	vc.eng.tkTypes[tk] = t
	lv := &LVal{Space: 'O', TK: tk, Typ: t, ObjT: t, Ref: ref}
	ls := vc.eng.layoutOf(t).L
	for j, li := range ls {
		name, sort := vc.heapOf(lv, j)
		h := vc.heapGet(name, sort)
		vc.ensureZero(li)
		vc.heapSet(name, sort, sto(h, ref, zeroOfSort(li)))
	}
	return SV{L: []string{ref}, LV: lv}
}

func (vc *VC) initElems(et types.Type, base string) {
	tk := typeKey(et)
	vc.eng.tkTypes[tk] = et
	ls := vc.eng.layoutOf(et).L
	for j, li := range ls {
		name := elemHeapName(tk, j)
		sort := "(Array Int (Array (_ BitVec 64) " + li.Sort + "))"
		h := vc.heapGet(name, sort)
		vc.ensureZero(li)
		vc.heapSet(name, sort, sto(h, base, fmt.Sprintf("((as const (Array (_ BitVec 64) %s)) %s)", li.Sort, zeroOfSort(li))))
	}
}

func (vc *VC) indexAddr(fr *Frame, x *ssa.IndexAddr) SV {
	idx, signed := vc.idx64(fr, x.Index)
	switch t := x.X.Type().Underlying().(type) {
	case *types.Slice:
		sv := vc.val(fr, x.X)
		vc.boundsCheck(idx, signed, sv.L[2], "slice")
		tk := typeKey(t.Elem())
		vc.eng.tkTypes[tk] = t.Elem()
		abs := vc.ix(sv.L[1], idx)
		lim := vc.def(bvSort(64), "(bvadd "+sv.L[1]+" "+sv.L[2]+")")
		return SV{L: []string{"0"}, LV: &LVal{Space: 'E', TK: tk, Typ: t.Elem(), ObjT: t.Elem(), Ref: sv.L[0], Idx: abs, Lim: lim}}
	case *types.Pointer:
		at := t.Elem().Underlying().(*types.Array)
		lv := vc.lvalOf(fr, x.X)
		vc.nilCheck(lv, "arrayptr")
		vc.boundsCheck(idx, signed, bvLitI(at.Len(), 64), "array")
		nl := *lv
		nl.Typ = at.Elem()
		nl.Arr = append(append([]string{}, lv.Arr...), idx)
		return SV{L: []string{"0"}, LV: &nl}
	}
	vc.fail("IndexAddr on %s unsupported", x.X.Type())
	return SV{}
}

func (vc *VC) lookup(fr *Frame, x *ssa.Lookup) SV {
	mt, ok := x.X.Type().Underlying().(*types.Map)
	if !ok {
		vc.fail("string indexing is outside the supported subset")
	}
	mi := vc.eng.mapInfoOf(x.X.Type())
	ref := vc.val(fr, x.X).L[0]
	k := vc.val(fr, x.Index).L[0]
	vc.guardCheckMap(fr, x.X, false)
	dom := vc.mapDom(mi, ref)
	present := vc.def("Bool", sel(dom, k))
	out := SV{}
	for j, li := range mi.VLeaves {
		vc.ensureZero(li)
		out.L = append(out.L, vc.def(li.Sort, ite(present, sel(vc.mapVal(mi, ref, j), k), zeroOfSort(li))))
	}
	vc.typeFacts(mt.Elem(), out)
	if x.CommaOk {
		out.L = append(out.L, present)
	}
	return out
}

func (vc *VC) sliceOp(fr *Frame, x *ssa.Slice) SV {
	var base, off, ln, cp string
	switch t := x.X.Type().Underlying().(type) {
	case *types.Slice:
		sv := vc.val(fr, x.X)
		base, off, ln, cp = sv.L[0], sv.L[1], sv.L[2], sv.L[3]
	case *types.Pointer:
		// slicing a pointer to an array: materialise the array as slice storage
		at := t.Elem().Underlying().(*types.Array)
		lv := vc.lvalOf(fr, x.X)
		arr := vc.load(lv)
		base = vc.newRef("arr")
		et := at.Elem()
		tk := typeKey(et)
		vc.eng.tkTypes[tk] = et
		for j, li := range vc.eng.layoutOf(et).L {
			name := elemHeapName(tk, j)
			sort := "(Array Int (Array (_ BitVec 64) " + li.Sort + "))"
			h := vc.heapGet(name, sort)
			vc.heapSet(name, sort, sto(h, base, arr.L[j]))
		}
		off, ln, cp = bvLitI(0, 64), bvLitI(at.Len(), 64), bvLitI(at.Len(), 64)
	default:
		vc.fail("slicing %s is outside the supported subset", x.X.Type())
	}
	lo, hi, mx := bvLitI(0, 64), ln, cp
	if x.Low != nil {
		lo, _ = vc.idx64(fr, x.Low)
	}
	if x.High != nil {
		hi, _ = vc.idx64(fr, x.High)
	}
	if x.Max != nil {
		mx, _ = vc.idx64(fr, x.Max)
	}
	vc.oblige("slice:bounds", []string{"aux"}, and("(bvsle (_ bv0 64) "+lo+")", "(bvsle "+lo+" "+hi+")", "(bvsle "+hi+" "+mx+")", "(bvsle "+mx+" "+cp+")"))
	newOff := vc.def(bvSort(64), "(bvadd "+off+" "+lo+")")
	if lo != bvLitI(0, 64) {
		newOff = vc.ix(off, lo)
		if vc.pure == 0 {
			// the window difference, spelled out for frame checks (see inWindow)
			vc.assume("(= (bvsub " + newOff + " " + off + ") " + lo + ")")
			// a position named through the operand is also a position of the new slice: lets
			// quantified facts about the new slice (callee postconditions) fire on operand indices
			vc.assume("(forall ((c!q (_ BitVec 64))) (! (= (ix " + off + " c!q) (ix " + newOff + " (bvsub c!q " + lo + "))) :pattern ((ix " + off + " c!q))))")
		}
	}
	r := SV{L: []string{base,
		newOff,
		vc.def(bvSort(64), "(bvsub "+hi+" "+lo+")"),
		vc.def(bvSort(64), "(bvsub "+mx+" "+lo+")")}}
	if vc.pure == 0 {
		// consequences of the bounds obligation above and the operand's own header invariant
		vc.assume(and("(bvsle (_ bv0 64) "+r.L[2]+")", "(bvsle "+r.L[2]+" "+r.L[3]+")", "(bvsle "+r.L[3]+" "+cp+")"))
		if vc.sliceProvs == nil {
			vc.sliceProvs = map[string]sliceProv{}
		}
		// a chain element must keep the ancestor's capacity bound: rCap of this level
		// is relative to this operand; deeper ancestors see it through provChain
		vc.sliceProvs[newOff] = sliceProv{pOff: off, pCap: cp, rCap: r.L[3]}
	}
	return r
}

func (vc *VC) binop(fr *Frame, x *ssa.BinOp) SV {
	a, b := vc.val(fr, x.X), vc.val(fr, x.Y)
	ls := vc.eng.layoutOf(x.X.Type()).L
	op := x.Op
	// comparisons of composite values
	if (op == token.EQL || op == token.NEQ) && (a.LV != nil || b.LV != nil) {
		// pointers with statically known targets (&x.f, &s[i]): compare locations
		var r string
		switch {
		case a.LV != nil && b.LV != nil:
			if a.LV.Space != b.LV.Space || a.LV.TK != b.LV.TK || a.LV.Leaf != b.LV.Leaf || len(a.LV.Arr) != len(b.LV.Arr) {
				r = "false"
			} else {
				cs := []string{eq(a.LV.Ref, b.LV.Ref)}
				if a.LV.Space == 'E' {
					cs = append(cs, eq(a.LV.Idx, b.LV.Idx))
				}
				for k := range a.LV.Arr {
					cs = append(cs, eq(a.LV.Arr[k], b.LV.Arr[k]))
				}
				r = and(cs...)
			}
		case a.LV != nil:
			r = and(eq(a.LV.Ref, b.L[0]), boolTerm(a.LV.Leaf == 0 && a.LV.Space == 'O' && len(a.LV.Arr) == 0))
		default:
			r = and(eq(b.LV.Ref, a.L[0]), boolTerm(b.LV.Leaf == 0 && b.LV.Space == 'O' && len(b.LV.Arr) == 0))
		}
		if op == token.NEQ {
			r = not(r)
		}
		return scalar(vc.def("Bool", r))
	}
	if op == token.EQL || op == token.NEQ {
		var cs []string
		n := len(a.L)
		if len(b.L) < n {
			n = len(b.L)
		}
		for j := 0; j < n; j++ {
			cs = append(cs, eq(a.L[j], b.L[j]))
		}
		r := and(cs...)
		if op == token.NEQ {
			r = not(r)
		}
		return scalar(vc.def("Bool", r))
	}
	if len(ls) != 1 {
		vc.fail("binary operator %s on composite type %s", op, x.X.Type())
	}
	li := ls[0]
	switch li.Kind {
	case kBool:
		switch op {
		case token.AND, token.LAND:
			return scalar(vc.def("Bool", and(a.L[0], b.L[0])))
		case token.OR, token.LOR:
			return scalar(vc.def("Bool", or(a.L[0], b.L[0])))
		}
	case kBV:
		w, signed := li.W, li.Signed
		A, B := a.L[0], b.L[0]
		bin := func(f string) SV { return scalar(vc.def(bvSort(w), "("+f+" "+A+" "+B+")")) }
		cmp := func(f string) SV { return scalar(vc.def("Bool", "("+f+" "+A+" "+B+")")) }
		switch op {
		case token.ADD:
			r := bin("bvadd")
			if bt, ok := x.X.Type().Underlying().(*types.Basic); ok && bt.Kind() == types.Uintptr {
				if a.LV != nil && b.LV == nil {
					r.LV, r.POff = a.LV, addOff(a.POff, B)
				} else if b.LV != nil && a.LV == nil {
					r.LV, r.POff = b.LV, addOff(b.POff, A)
				}
			}
			return r
		case token.SUB:
			return bin("bvsub")
		case token.MUL:
			return bin("bvmul")
		case token.QUO, token.REM:
			vc.oblige("divzero", []string{"aux"}, not(eq(B, bvLitI(0, w))))
			f := map[bool]map[token.Token]string{true: {token.QUO: "bvsdiv", token.REM: "bvsrem"}, false: {token.QUO: "bvudiv", token.REM: "bvurem"}}[signed][op]
			return bin(f)
		case token.AND:
			return bin("bvand")
		case token.OR:
			return bin("bvor")
		case token.XOR:
			return bin("bvxor")
		case token.AND_NOT:
			return scalar(vc.def(bvSort(w), "(bvand "+A+" (bvnot "+B+"))"))
		case token.SHL, token.SHR:
			yw, ys := vc.intInfo(x.Y.Type())
			if ys {
				if _, isConst := x.Y.(*ssa.Const); !isConst {
					vc.oblige("shift:negative", []string{"aux"}, "(bvsle "+bvLitI(0, yw)+" "+B+")")
				}
			}
			var sh string
			if yw <= w {
				sh = ext(B, yw, w, false)
			} else {
				// saturate: counts >= w behave like w
				sh = ite("(bvuge "+B+" "+bvLitI(int64(w), yw)+")", bvLitI(int64(w), w), ext(B, yw, w, false))
			}
			f := "bvshl"
			if op == token.SHR {
				f = "bvlshr"
				if signed {
					f = "bvashr"
				}
			}
			return scalar(vc.def(bvSort(w), "("+f+" "+A+" "+sh+")"))
		case token.LSS:
			if signed {
				return cmp("bvslt")
			}
			return cmp("bvult")
		case token.LEQ:
			if signed {
				return cmp("bvsle")
			}
			return cmp("bvule")
		case token.GTR:
			if signed {
				return cmp("bvsgt")
			}
			return cmp("bvugt")
		case token.GEQ:
			if signed {
				return cmp("bvsge")
			}
			return cmp("bvuge")
		}
	case kTime, kRef:
		A, B := a.L[0], b.L[0]
		switch op {
		case token.LSS:
			return scalar("(< " + A + " " + B + ")")
		case token.LEQ:
			return scalar("(<= " + A + " " + B + ")")
		case token.GTR:
			return scalar("(> " + A + " " + B + ")")
		case token.GEQ:
			return scalar("(>= " + A + " " + B + ")")
		}
	case kUninterp:
		// floats and strings: uninterpreted operators
		f := quoteSym(fmt.Sprintf("op:%s:%s", li.Sort, op))
		switch op {
		case token.LSS, token.LEQ, token.GTR, token.GEQ:
			vc.declareUF(f, fmt.Sprintf("(%s %s) Bool", li.Sort, li.Sort))
		default:
			vc.declareUF(f, fmt.Sprintf("(%s %s) %s", li.Sort, li.Sort, li.Sort))
		}
		return scalar("(" + f + " " + a.L[0] + " " + b.L[0] + ")")
	}
	vc.fail("unsupported binary operator %s on %s", op, x.X.Type())
	return SV{}
}

func (vc *VC) unop(fr *Frame, x *ssa.UnOp) SV {
	switch x.Op {
	case token.MUL: // load
		lv := vc.lvalOf(fr, x.X)
		vc.nilCheck(lv, "load")
		vc.guardCheck(lv, false)
		out := vc.load(lv)
		vc.loadMeta(fr, lv, &out)
		return out
	case token.ARROW:
		return vc.chanRecv(fr, x.X, x.CommaOk, x.Pos())
	}
	a := vc.val(fr, x.X)
	ls := vc.eng.layoutOf(x.X.Type()).L
	if len(ls) == 1 {
		switch x.Op {
		case token.NOT:
			return scalar(not(a.L[0]))
		case token.SUB:
			if ls[0].Kind == kBV {
				return scalar(vc.def(ls[0].Sort, "(bvneg "+a.L[0]+")"))
			}
		case token.XOR:
			if ls[0].Kind == kBV {
				return scalar(vc.def(ls[0].Sort, "(bvnot "+a.L[0]+")"))
			}
		}
	}
	vc.fail("unsupported unary operator %s on %s", x.Op, x.X.Type())
	return SV{}
}

func (vc *VC) convert(fr *Frame, x *ssa.Convert) SV {
	a := vc.val(fr, x.X)
	from := vc.eng.layoutOf(x.X.Type()).L
	to := vc.eng.layoutOf(x.Type()).L
	if len(from) == 1 && len(to) == 1 {
		f, t := from[0], to[0]
		switch {
		case f.Kind == kBV && t.Kind == kBV:
			if _, isPtr := x.Type().Underlying().(*types.Basic); isPtr && x.Type().Underlying().(*types.Basic).Kind() == types.Uintptr && a.LV != nil {
				return SV{L: []string{ext(a.L[0], f.W, t.W, f.Signed)}, LV: a.LV}
			}
			return SV{L: []string{vc.def(t.Sort, ext(a.L[0], f.W, t.W, f.Signed))}, LV: a.LV}
		case f.Kind == kRef && t.Kind == kRef:
			// pointer <-> unsafe.Pointer
			if pt, ok := x.Type().Underlying().(*types.Pointer); ok && a.LV != nil {
				if !types.Identical(pt.Elem(), a.LV.Typ) || a.POff != "" {
					return vc.viewPtr(a, pt.Elem())
				}
			}
			return a
		case f.Kind == kRef && t.Kind == kBV:
			// unsafe.Pointer -> uintptr: abstract address
			return vc.ptrToUintptr(a)
		case f.Kind == kBV && t.Kind == kRef:
			// uintptr -> unsafe.Pointer
			return vc.uintptrToPtr(a)
		case f.Kind == kBV && t.Sort == "F64":
			fn := quoteSym(fmt.Sprintf("conv:i%d:%v:f64", f.W, f.Signed))
			vc.declareUF(fn, fmt.Sprintf("(%s) F64", f.Sort))
			return scalar("(" + fn + " " + a.L[0] + ")")
		case f.Sort == "F64" && t.Kind == kBV:
			fn := quoteSym(fmt.Sprintf("conv:f64:i%d:%v", t.W, t.Signed))
			vc.declareUF(fn, fmt.Sprintf("(F64) %s", t.Sort))
			return scalar("(" + fn + " " + a.L[0] + ")")
		case f.Sort == t.Sort:
			return a
		}
	}
	if len(from) == len(to) {
		same := true
		for i := range from {
			if from[i].Sort != to[i].Sort {
				same = false
			}
		}
		if same {
			return a
		}
	}
	// []byte <-> string and friends
	vc.fail("unsupported conversion %s -> %s", x.X.Type(), x.Type())
	return SV{}
}

func addOff(cur, d string) string {
	if cur == "" {
		return d
	}
	return "(bvadd " + cur + " " + d + ")"
}

// viewPtr reinterprets a pointer obtained through unsafe arithmetic.  Only the
// pattern used by z/bbloom.go is given semantics: a *uint8 into the storage of a
// []uint64 (little-endian byte order, listed as an assumption).
func (vc *VC) viewPtr(a SV, elem types.Type) SV {
	lv := a.LV
	bt, ok := elem.Underlying().(*types.Basic)
	if ok && bt.Kind() == types.Uint8 && lv.Space == 'E' && len(lv.Arr) == 0 {
		if ob, ok := lv.ObjT.Underlying().(*types.Basic); ok && ob.Kind() == types.Uint64 {
			nl := *lv
			nl.ByteView = true
			nl.Typ = elem
			nl.BOff = a.POff
			if nl.BOff == "" {
				nl.BOff = bvLitI(0, 64)
			}
			vc.noteAssumption("unsafe: a *uint8 derived from &[]uint64[i] addresses the bytes of the elements in little-endian order (amd64)")
			return SV{L: []string{"0"}, LV: &nl}
		}
	}
	vc.fail("unsafe pointer reinterpretation %s -> *%s is outside the modelled patterns", lv.Typ, elem)
	return SV{}
}

// ix is the absolute element index off+i, wrapped in an uninterpreted function so
// that quantifier triggers over slice elements match syntactically.
func (vc *VC) ix(off, i string) string {
	if !vc.declared["ix"] {
		vc.declared["ix"] = true
		vc.decls = append(vc.decls, "(declare-fun ix ((_ BitVec 64) (_ BitVec 64)) (_ BitVec 64))",
			"(assert (forall ((a (_ BitVec 64)) (b (_ BitVec 64))) (! (= (ix a b) (bvadd a b)) :pattern ((ix a b)))))",
			// re-slicing composes offsets: an element of s[lo:] is an element of s
			"(assert (forall ((a (_ BitVec 64)) (b (_ BitVec 64)) (c (_ BitVec 64))) (! (= (ix (ix a b) c) (ix a (bvadd b c))) :pattern ((ix (ix a b) c)))))")
	}
	return "(ix " + off + " " + i + ")"
}

// rootReturn checks the postconditions of the function under verification at one
// return site (one obligation per clause and return keeps queries small).
func (vc *VC) rootReturn(fr *Frame, results []SV) {
	fi := fr.fi
	if fi == nil {
		return
	}
	eargs := append(append([]SV{}, vc.clauseArgsEntry(fr)...), results...)
	for i, en := range fi.C.Ensures {
		ea := eargs
		if len(en.Locals) > 0 && vc.retBlock != nil {
			ea = append([]SV{}, eargs...)
			for _, n := range en.Locals {
				ea = append(ea, vc.valueAt(fr, vc.retBlock, vc.retInstr, n, nil))
			}
		}
		g := vc.evalClause(en.GoName, fi.C.Pkg, ea, vc.st, vc.entry)
		tag := ""
		if len(en.Tags) > 0 {
			tag = "[" + strings.Join(en.Tags, ",") + "]"
		}
		vc.obligeConj("ensures"+tag+":"+clauseLabel(en, i), en.Tags, g)
	}
	if len(vc.st.Locks) > 0 {
		if _, holds := fi.C.Attrs["holds"]; !holds {
			vc.oblige("lock:held-at-return", []string{"C08"}, "false")
		}
	}
}

// clauseArgsEntry: the arguments of pre/postcondition clauses are the entry values
// of the parameters (and the current values of captured variables).
func (vc *VC) clauseArgsEntry(fr *Frame) []SV {
	return vc.clauseArgsFrame(fr)
}

func callName(c *ssa.CallCommon) string {
	if c.IsInvoke() {
		return c.Method.Name()
	}
	if sc := c.StaticCallee(); sc != nil {
		return origin(sc).Name()
	}
	return ""
}

// checkAnchors evaluates `at call f#k assert` clauses placed before this call.
// astCallName names a call through a function value by the identifier written at
// the call site (cb(x), onEvict(i), c.onExit(v)).
func (vc *VC) astCallName(fr *Frame, call *ssa.Call) string {
	if n := callName(call.Common()); n != "" {
		return n
	}
	if fr.fi == nil || fr.fi.Decl == nil {
		return ""
	}
	name := ""
	ast.Inspect(fr.fi.Decl, func(n ast.Node) bool {
		if ce, ok := n.(*ast.CallExpr); ok && ce.Lparen == call.Pos() {
			switch f := ce.Fun.(type) {
			case *ast.Ident:
				name = f.Name
			case *ast.SelectorExpr:
				name = f.Sel.Name
			}
		}
		return name == ""
	})
	return name
}

func (vc *VC) checkAnchors(fr *Frame, b *ssa.BasicBlock, call *ssa.Call) {
	name := vc.astCallName(fr, call)
	if name == "" {
		return
	}
	var sites []*ssa.Call
	for _, blk := range fr.fn.Blocks {
		for _, ins := range blk.Instrs {
			if c, ok := ins.(*ssa.Call); ok && vc.astCallName(fr, c) == name {
				sites = append(sites, c)
			}
		}
	}
	sort.Slice(sites, func(i, j int) bool { return sites[i].Pos() < sites[j].Pos() })
	for _, a := range fr.fi.C.Anchors {
		if a.Callee != name || a.C.GoName == "" {
			continue
		}
		if a.Ord != 0 && (a.Ord < 1 || a.Ord > len(sites) || sites[a.Ord-1] != call) {
			continue
		}
		if a.C.Kind == "mark" {
			if vc.marks == nil {
				vc.marks = map[string]*State{}
			}
			vc.marks[a.C.Label] = vc.st.clone()
			continue
		}
		args := vc.clauseArgsFrame(fr)
		for _, n := range a.C.Locals {
			args = append(args, vc.valueAt(fr, b, call, n, nil))
		}
		g := vc.evalClause(a.C.GoName, fr.fi.C.Pkg, args, vc.st, vc.entry)
		if a.C.Kind == "assume" {
			// a stated hypothesis (listed in the evidence), not an obligation
			vc.assume(g)
			vc.noteAssumption("hypothesis at call " + a.Callee + " in " + fr.fn.Name() + ": " + a.C.Expr)
			continue
		}
		tag := ""
		if len(a.C.Tags) > 0 {
			tag = "[" + strings.Join(a.C.Tags, ",") + "]"
		}
		vc.oblige("assert"+tag+":"+clauseLabel(a.C, 0), a.C.Tags, g)
	}
}

func boolTerm(b bool) string {
	if b {
		return "true"
	}
	return "false"
}
