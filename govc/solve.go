package main

import (
	"bytes"
	"context"
	"fmt"
	"os"
	"os/exec"
	"path/filepath"
	"strings"
	"sync"
	"time"
)

type solverSpec struct {
	Name string
	Args func(file string, timeout time.Duration, seed int) []string
	QF   bool // runs on the quantifier-free weakening of the script
}

var solvers = []solverSpec{
	{"z3-new", func(f string, t time.Duration, seed int) []string {
		return []string{"z3-new", fmt.Sprintf("-T:%d", int(t.Seconds())+1), fmt.Sprintf("smt.random_seed=%d", seed), f}
	}, false},
	{"z3", func(f string, t time.Duration, seed int) []string {
		return []string{"z3", fmt.Sprintf("-T:%d", int(t.Seconds())+1), fmt.Sprintf("smt.random_seed=%d", seed), f}
	}, false},
	{"cvc5", func(f string, t time.Duration, seed int) []string {
		return []string{"cvc5", fmt.Sprintf("--tlimit=%d", t.Milliseconds()), fmt.Sprintf("--seed=%d", seed), "--produce-models", f}
	}, false},
	// Bit-vector heavy goals (window arithmetic, offsets): drop every quantified
	// assumption (a weakening, so unsat is still a proof), ground the ix axioms and
	// hand the rest to the SAT pipeline.  Only its unsat answers are used.
	{"z3-new/qf-sat", func(f string, t time.Duration, seed int) []string {
		return []string{"z3-new", fmt.Sprintf("-T:%d", int(t.Seconds())+1), fmt.Sprintf("sat.random_seed=%d", seed), f}
	}, true},
}

// qfVariant weakens a script to its quantifier-free part: quantified assumptions
// are dropped, except that axioms of the shape (forall xs (! body :pattern (f ...)))
// are instantiated (two rounds) on the ground applications of f that occur in the
// rest of the script — a finite subset of their instances, so still a weakening.
func qfVariant(src string) string {
	var keep, dropped []string
	for _, l := range strings.Split(src, "\n") {
		if strings.HasPrefix(l, "(get-value") || strings.HasPrefix(l, "(get-model") {
			continue
		}
		if strings.Contains(l, "(forall ") || strings.Contains(l, "(exists ") || strings.Contains(l, "(lambda ") {
			dropped = append(dropped, l)
			continue
		}
		keep = append(keep, l)
	}
	txt := strings.Join(keep, "\n")
	k := strings.LastIndex(txt, "(check-sat)")
	if k < 0 {
		return ""
	}
	head := txt[:k]
	var axioms []*groundAxiom
	for _, d := range dropped {
		if a := parseGroundAxiom(d); a != nil {
			axioms = append(axioms, a)
		}
	}
	seen := map[string]bool{}
	var facts []string
	scan := head
	for round := 0; round < 2; round++ {
		var fresh []string
		for _, a := range axioms {
			for _, inst := range a.instances(scan, seen) {
				fresh = append(fresh, "(assert "+inst+")")
			}
			if len(facts)+len(fresh) > 4000 {
				break
			}
		}
		if len(fresh) == 0 {
			break
		}
		facts = append(facts, fresh...)
		scan = strings.Join(fresh, "\n")
	}
	return head + strings.Join(facts, "\n") + "\n(check-sat-using (then simplify propagate-values solve-eqs elim-uncnstr simplify bit-blast sat))\n"
}

type groundAxiom struct {
	vars map[string]bool
	body *sx
	pat  *sx
	src  string
}

// parseGroundAxiom accepts (assert (forall (binders) (! body :pattern (p)))) with a single-term pattern.
func parseGroundAxiom(line string) *groundAxiom {
	root := parseSx(line)
	if root == nil || len(root.kids) != 2 || root.kids[0].atom != "assert" {
		return nil
	}
	q := root.kids[1]
	if len(q.kids) != 3 || q.kids[0].atom != "forall" {
		return nil
	}
	bang := q.kids[2]
	if len(bang.kids) < 4 || bang.kids[0].atom != "!" {
		return nil
	}
	a := &groundAxiom{vars: map[string]bool{}, body: bang.kids[1], src: line}
	for _, b := range q.kids[1].kids {
		if len(b.kids) == 2 {
			a.vars[b.kids[0].atom] = true
		}
	}
	for i := 2; i+1 < len(bang.kids); i += 2 {
		if bang.kids[i].atom == ":pattern" && len(bang.kids[i+1].kids) == 1 && a.pat == nil {
			a.pat = bang.kids[i+1].kids[0]
		}
	}
	if a.pat == nil || len(a.pat.kids) == 0 || a.pat.kids[0].atom == "" {
		return nil
	}
	if strings.Contains(line[a.body.s:a.body.e], "(forall ") || strings.Contains(line[a.body.s:a.body.e], "(exists ") {
		return nil
	}
	// every bound variable must occur in the pattern
	pt := line[a.pat.s:a.pat.e]
	for v := range a.vars {
		if !strings.Contains(pt, v) {
			return nil
		}
	}
	return a
}

func normWS(s string) string { return strings.Join(strings.Fields(s), " ") }

func (a *groundAxiom) instances(text string, seen map[string]bool) []string {
	head := a.pat.kids[0].atom
	var out []string
	needle := "(" + head + " "
	for i := 0; ; {
		j := strings.Index(text[i:], needle)
		if j < 0 {
			break
		}
		j += i
		i = j + 1
		app := parseSx(text[j:])
		if app == nil || len(app.kids) != len(a.pat.kids) {
			continue
		}
		at := text[j : j+app.e]
		bind := map[string]string{}
		if !a.match(a.pat, app, at, bind) {
			continue
		}
		key := a.src[:min(len(a.src), 80)] + "|" + normWS(at)
		if seen[key] {
			continue
		}
		seen[key] = true
		out = append(out, a.subst(a.body, bind))
		if len(out) > 400 {
			break
		}
	}
	return out
}

func (a *groundAxiom) match(p, t *sx, ttext string, bind map[string]string) bool {
	if p.atom != "" {
		tt := normWS(ttext[t.s:t.e])
		if a.vars[p.atom] {
			if b, ok := bind[p.atom]; ok {
				return b == tt
			}
			bind[p.atom] = tt
			return true
		}
		return t.atom == p.atom
	}
	if t.atom != "" || len(t.kids) != len(p.kids) {
		return false
	}
	for i := range p.kids {
		if !a.match(p.kids[i], t.kids[i], ttext, bind) {
			return false
		}
	}
	return true
}

func (a *groundAxiom) subst(n *sx, bind map[string]string) string {
	if n.atom != "" {
		if b, ok := bind[n.atom]; ok {
			return b
		}
		return n.atom
	}
	parts := make([]string, len(n.kids))
	for i, k := range n.kids {
		parts[i] = a.subst(k, bind)
	}
	return "(" + strings.Join(parts, " ") + ")"
}

type solveResult struct {
	Verdict string // unsat | sat | unknown
	Backend string
	Time    float64
	Output  string
	All     map[string]string
}

// runSolvers races the installed solvers on one script.  The first definitive
// answer (sat/unsat) wins; in thorough mode all solvers start at once, the others
// get a grace period after the first answer (5 s + twice the winner's time) to
// cross-check it, and disagreement is reported.
func runSolvers(file string, timeout time.Duration, seed int, all bool) solveResult {
	qfFile := ""
	if src, err := os.ReadFile(file); err == nil && strings.Contains(string(src), "(_ BitVec") {
		if q := qfVariant(string(src)); q != "" {
			qfFile = file + ".qf"
			os.WriteFile(qfFile, []byte(q), 0o644)
			defer os.Remove(qfFile)
		}
	}
	ctx, cancel := context.WithTimeout(context.Background(), timeout+2*time.Second)
	defer cancel()
	type ans struct {
		name, verdict, out string
		t                  float64
	}
	ch := make(chan ans, len(solvers))
	for si, s := range solvers {
		s := s
		delay := time.Duration(0)
		if si > 0 && !all {
			// staggered race: most obligations fall to the first solver within a second;
			// the others join only for the hard ones
			delay = 1500 * time.Millisecond
		}
		go func() {
			if delay > 0 {
				select {
				case <-time.After(delay):
				case <-ctx.Done():
					ch <- ans{s.Name, "unknown", "not started", 0}
					return
				}
			}
			t0 := time.Now()
			f := file
			if s.QF {
				if qfFile == "" {
					ch <- ans{s.Name, "unknown", "no qf variant", 0}
					return
				}
				f = qfFile
			}
			a := s.Args(f, timeout, seed)
			cmd := exec.CommandContext(ctx, a[0], a[1:]...)
			var out bytes.Buffer
			cmd.Stdout = &out
			cmd.Stderr = &out
			_ = cmd.Run()
			o := out.String()
			first := strings.TrimSpace(strings.SplitN(o, "\n", 2)[0])
			v := "unknown"
			switch first {
			case "unsat", "sat":
				v = first
			}
			if s.QF && v == "sat" {
				v = "unknown" // fewer assumptions: a model means nothing
			}
			ch <- ans{s.Name, v, o, time.Since(t0).Seconds()}
		}()
	}
	res := solveResult{Verdict: "unknown", All: map[string]string{}}
	var outs []string
	for i := 0; i < len(solvers); i++ {
		a := <-ch
		res.All[a.name] = a.verdict
		outs = append(outs, fmt.Sprintf("[%s %.2fs] %s", a.name, a.t, firstLines(a.out, 3)))
		if a.verdict != "unknown" && res.Verdict == "unknown" {
			res.Verdict, res.Backend, res.Time, res.Output = a.verdict, a.name, a.t, a.out
			if all {
				// cross-check: the other solvers get a grace period proportional to the winner's time
				grace := time.Duration(2*a.t*float64(time.Second)) + 5*time.Second
				time.AfterFunc(grace, cancel)
			}
			if !all {
				cancel()
				// drain
				go func(n int) {
					for j := 0; j < n; j++ {
						<-ch
					}
				}(len(solvers) - i - 1)
				return res
			}
		} else if a.verdict != "unknown" && a.verdict != res.Verdict {
			res.Verdict = "disagree"
		}
	}
	if res.Verdict == "unknown" {
		res.Output = strings.Join(outs, "\n")
	}
	return res
}

func firstLines(s string, n int) string {
	ls := strings.Split(strings.TrimSpace(s), "\n")
	if len(ls) > n {
		ls = ls[:n]
	}
	return strings.Join(ls, " | ")
}

type solveOpts struct {
	OutDir  string
	Timeout time.Duration
	Seed    int
	All     bool
	Jobs    int
}

func dischargeAll(results []*FuncResult, opts solveOpts) {
	type job struct {
		vc *VC
		o  *Obl
		id int
	}
	var jobs []job
	id := 0
	for _, r := range results {
		if r.VC == nil {
			continue
		}
		for _, o := range r.Obls {
			if o.Status != "" {
				continue
			}
			id++
			jobs = append(jobs, job{r.VC, o, id})
		}
	}
	os.MkdirAll(opts.OutDir, 0o755)
	var wg sync.WaitGroup
	sem := make(chan struct{}, opts.Jobs)
	for _, j := range jobs {
		j := j
		wg.Add(1)
		sem <- struct{}{}
		go func() {
			defer wg.Done()
			defer func() { <-sem }()
			file := filepath.Join(opts.OutDir, fmt.Sprintf("%04d.smt2", j.id))
			src := "; " + j.o.Name + "\n" + j.vc.script(j.o, true)
			os.WriteFile(file, []byte(src), 0o644)
			to := opts.Timeout
			if j.o.Kind != "assert" {
				to = 3 * time.Second
			}
			r := runSolvers(file, to, opts.Seed, opts.All && j.o.Kind == "assert")
			j.o.Backend, j.o.Time, j.o.Output = r.Backend, r.Time, r.Output
			switch j.o.Kind {
			case "assert":
				switch r.Verdict {
				case "unsat":
					j.o.Status = "discharged"
				case "sat":
					j.o.Status = "refuted"
					j.o.Model = r.Output
				case "disagree":
					j.o.Status = "solver-disagreement"
				default:
					j.o.Status = "undecided"
				}
			case "smoke-dead":
				j.o.Status = "declared-infeasible-" + r.Verdict
			case "smoke-path":
				if r.Verdict == "unsat" {
					j.o.Status = "infeasible-path"
				} else {
					j.o.Status = "ok-" + r.Verdict
				}
			default: // smoke / sat: a contradiction in the assumptions is what must NOT be provable
				if r.Verdict == "unsat" {
					j.o.Status = "vacuous"
				} else {
					j.o.Status = "ok-" + r.Verdict
				}
			}
			if j.o.Status == "discharged" || strings.HasPrefix(j.o.Status, "ok-") || j.o.Status == "infeasible-path" || strings.HasPrefix(j.o.Status, "declared-infeasible") {
				os.Remove(file)
			} else {
				j.o.Output += "\nscript: " + file
			}
		}()
	}
	wg.Wait()
	// path mode: at least one return path of each function must be feasible
	for _, r := range results {
		n, ok := 0, 0
		for _, o := range r.Obls {
			if o.Kind == "smoke-path" {
				n++
				if strings.HasPrefix(o.Status, "ok-") {
					ok++
				}
			}
		}
		if n > 0 && ok == 0 {
			for _, o := range r.Obls {
				if o.Kind == "smoke-path" {
					o.Status = "vacuous"
					break
				}
			}
		}
	}
}
