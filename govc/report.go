package main

import "fmt"

func runCommand(cmd, repo, verif, prop, tier string, seed int, args []string, timeout int) error {
	return fmt.Errorf("command %q not implemented yet", cmd)
}
