package main

import (
	"bufio"
	"crypto/sha256"
	"encoding/json"
	"fmt"
	"os"
	"path/filepath"
	"regexp"
	"sort"
	"strings"
	"time"
)

var reDup = regexp.MustCompile(`~\d+$`)

func baseName(n string) string { return reDup.ReplaceAllString(n, "") }

func isAuxClass(n string) bool {
	i := strings.Index(n, "#")
	if i < 0 {
		return false
	}
	k := n[i+1:]
	for _, p := range []string{"nil:", "index:", "divzero", "frame:", "slice:", "shift:", "makeslice", "nilmap", "unsafe:", "unreachable:", "smoke:"} {
		if strings.HasPrefix(k, p) {
			return true
		}
	}
	return false
}

func shortObl(n string) string {
	n = strings.ReplaceAll(n, "github.com/dgraph-io/ristretto/v2/", "")
	n = strings.ReplaceAll(n, "github.com/dgraph-io/ristretto/v2", "ristretto")
	return n
}

// ---- property cones ---------------------------------------------------------------

func hasTag(tags []string, p string) bool {
	for _, t := range tags {
		if t == p {
			return true
		}
	}
	return false
}

func (e *Engine) taggedFuncs(prop string) (keys []string, lemmas []*Lemma) {
	for k, fi := range e.infos {
		c := fi.C
		tagged := false
		for _, cl := range c.Requires {
			tagged = tagged || hasTag(cl.Tags, prop)
		}
		for _, cl := range c.Ensures {
			tagged = tagged || hasTag(cl.Tags, prop)
		}
		for _, an := range c.Anchors {
			tagged = tagged || hasTag(an.C.Tags, prop)
		}
		for _, cl := range c.PanicsIf {
			tagged = tagged || hasTag(cl.Tags, prop)
		}
		for _, cls := range c.LoopInv {
			for _, cl := range cls {
				tagged = tagged || hasTag(cl.Tags, prop)
			}
		}
		for _, p := range strings.Split(c.Attrs["property"], ",") {
			if strings.TrimSpace(p) == prop {
				tagged = true
			}
		}
		// C08 (no race, no panic) is about every function on the public API paths: its cone
		// is every contract of the cache package (guard, rank and no-panic obligations of all)
		if prop == "C08" && strings.HasPrefix(k, ".:") {
			tagged = true
		}
		if tagged {
			keys = append(keys, k)
		}
	}
	sort.Strings(keys)
	for _, cf := range e.cfiles {
		for _, l := range cf.Lemmas {
			if hasTag(l.Tags, prop) {
				lemmas = append(lemmas, l)
			}
		}
	}
	return
}

// ---- lock file, known findings -------------------------------------------------------

type lockFile map[string]map[string]bool // property -> obligation class

func readLock(path string) lockFile {
	lf := lockFile{}
	f, err := os.Open(path)
	if err != nil {
		return lf
	}
	defer f.Close()
	sc := bufio.NewScanner(f)
	sc.Buffer(make([]byte, 1<<20), 1<<20)
	for sc.Scan() {
		l := sc.Text()
		if strings.HasPrefix(l, "#") || strings.TrimSpace(l) == "" {
			continue
		}
		p := strings.SplitN(l, "\t", 2)
		if len(p) != 2 {
			continue
		}
		if lf[p[0]] == nil {
			lf[p[0]] = map[string]bool{}
		}
		lf[p[0]][p[1]] = true
	}
	return lf
}

type finding struct {
	Kind, Prop, Obl, Text string
}

func readFindings(path string) []finding {
	var out []finding
	data, err := os.ReadFile(path)
	if err != nil {
		return nil
	}
	for _, l := range strings.Split(string(data), "\n") {
		l = strings.TrimSpace(l)
		if l == "" || strings.HasPrefix(l, "#") {
			continue
		}
		// finding: property=C20 obligation=<class> <text>      |  fixed: property=C20 <commit> <text>
		f := finding{}
		if strings.HasPrefix(l, "finding:") {
			f.Kind = "finding"
			l = strings.TrimSpace(strings.TrimPrefix(l, "finding:"))
		} else if strings.HasPrefix(l, "fixed:") {
			f.Kind = "fixed"
			l = strings.TrimSpace(strings.TrimPrefix(l, "fixed:"))
		} else {
			continue
		}
		for _, w := range strings.Fields(l) {
			if strings.HasPrefix(w, "property=") {
				f.Prop = strings.TrimPrefix(w, "property=")
			} else if strings.HasPrefix(w, "obligation=") {
				f.Obl = strings.TrimPrefix(w, "obligation=")
			}
		}
		f.Text = l
		out = append(out, f)
	}
	return out
}

// ---- the check command ---------------------------------------------------------------

type oblReport struct {
	Name    string   `json:"name"`
	Status  string   `json:"status"`
	Backend string   `json:"backend,omitempty"`
	TimeS   float64  `json:"solver_s,omitempty"`
	Tags    []string `json:"tags,omitempty"`
}

type funcReport struct {
	Contract    string `json:"contract"`
	Function    string `json:"function"`
	SSAHash     string `json:"ssa_sha256,omitempty"`
	Obligations int    `json:"obligations"`
	Discharged  int    `json:"discharged"`
	Trusted     string `json:"trusted,omitempty"`
	Error       string `json:"engine_error,omitempty"`
}

func ssaHash(fn *ssaFn) string {
	if fn == nil || fn.Blocks == nil {
		return ""
	}
	var b strings.Builder
	fn.WriteTo(&b)
	h := sha256.Sum256([]byte(b.String()))
	return fmt.Sprintf("%x", h[:8])
}

type checkResult struct {
	violations              []string
	known                   []string
	hardErrors              []string
	results                 []*FuncResult
	obligations, discharged int
	undecided               []string
	wall                    float64
	bounded                 []boundedReport
}

func runCommand(cmd, repo, verif, prop, tier string, seed int, args []string, timeout int) error {
	switch cmd {
	case "check":
		if prop == "" {
			return fmt.Errorf("check needs --property")
		}
		code, err := checkProperty(repo, verif, prop, tier, seed, timeout, os.Getenv("GOVC_NO_EVIDENCE") == "")
		if err != nil {
			return err
		}
		os.Exit(code)
	case "lock":
		return writeLock(repo, verif, args, timeout)
	case "replay":
		if len(args) != 1 {
			return fmt.Errorf("replay needs a path")
		}
		return replayFile(repo, verif, args[0])
	case "selftest":
		return selftest(repo, verif, args, tier)
	}
	return fmt.Errorf("unknown command %q", cmd)
}

// verifyCone verifies every function in the cone of a property.
func verifyCone(e *Engine, prop string) []*FuncResult {
	keys, lemmas := e.taggedFuncs(prop)
	done := map[string]bool{}
	var results []*FuncResult
	for len(keys) > 0 {
		var next []string
		for _, k := range keys {
			if done[k] {
				continue
			}
			done[k] = true
			r := e.verifyFunc(k)
			results = append(results, r)
			if r.VC != nil {
				for u := range r.VC.usedContracts {
					if !done[u] {
						next = append(next, u)
					}
				}
				for _, l := range r.VC.usedLemmas {
					if !done["lemma:"+l.Name] {
						done["lemma:"+l.Name] = true
						lemmas = append(lemmas, l)
					}
				}
			}
		}
		sort.Strings(next)
		keys = next
	}
	seen := map[*Lemma]bool{}
	for _, l := range lemmas {
		if seen[l] {
			continue
		}
		seen[l] = true
		r := e.verifyLemma(l)
		results = append(results, r)
	}
	return results
}

func checkProperty(repo, verif, prop, tier string, seed, timeout int, writeEvidence bool) (int, error) {
	t0 := time.Now()
	e, err := loadEngine(repo, "")
	if err != nil {
		// a tree that no longer type-checks against the contracts is a violation of every
		// locked obligation (a function was renamed or its signature changed)
		lock := readLock(filepath.Join(verif, "obligations.lock"))
		if len(lock[prop]) > 0 && strings.Contains(err.Error(), "contracts") {
			rp := filepath.Join(replayDir(verif), prop+"-contracts-do-not-typecheck.json")
			os.MkdirAll(filepath.Dir(rp), 0o755)
			js, _ := json.MarshalIndent(map[string]interface{}{"property": prop, "obligation": "all locked obligations (contracts no longer type-check against the tree)", "solver_output": err.Error()}, "", " ")
			os.WriteFile(rp, js, 0o644)
			fmt.Printf("VIOLATION property=%s replay=%s no-failing-input-found\n", prop, rp)
			return 1, nil
		}
		return 2, err
	}
	results := verifyCone(e, prop)
	// contracts written for the other architectures (portable fallbacks) are checked by
	// loading the tree a second time with GOARCH=arm64
	otherArch := false
	for _, fc := range e.skipped {
		for _, c := range fc.Ensures {
			if hasTag(c.Tags, prop) {
				otherArch = true
			}
		}
	}
	if otherArch {
		e2, err := loadEngine(repo, "arm64")
		if err != nil {
			return 2, fmt.Errorf("loading with GOARCH=arm64: %v", err)
		}
		for _, fc := range e.skipped {
			k := fc.Key()
			if _, ok := e2.infos[k]; ok {
				r := e2.verifyFunc(k)
				r.Key = k + "[GOARCH=arm64]"
				r.Fn += "[GOARCH=arm64]"
				for _, o := range r.Obls {
					o.Name = strings.Replace(o.Name, "#", "[arm64]#", 1)
				}
				results = append(results, r)
				e.fnOf[r.Key] = e2.fnOf[k]
			}
		}
	}
	to := 20 * time.Second
	all := false
	if tier == "thorough" {
		to = 120 * time.Second
		all = true
	}
	if timeout > 0 {
		to = time.Duration(timeout) * time.Second
	}
	outDir := filepath.Join(verif, "out", prop+"-"+tier)
	os.RemoveAll(outDir)
	dischargeAll(results, solveOpts{OutDir: outDir, Timeout: to, Seed: seed, All: all, Jobs: 8})
	lock := readLock(filepath.Join(verif, "obligations.lock"))[prop]
	// A locked obligation that ran out of time is retried with a long timeout and a
	// different seed before it may be reported: solver time varies with machine load,
	// and a timeout is not evidence of a violation.
	retried := 0
	replayed := map[*Obl]string{}
	for _, r := range results {
		for _, o := range r.Obls {
			if o.Kind == "assert" && o.Status == "undecided" && !lock["?"+shortObl(baseName(o.Name))] {
				// first see whether a candidate input already fails on the real code
				if rp, ok := makeReplay(e, verif, prop, r, o); ok {
					o.Status = "refuted"
					replayed[o] = rp
					continue
				}
				o.Status = ""
				retried++
			}
		}
	}
	if retried > 0 {
		fmt.Fprintf(os.Stderr, "govc: retrying %d locked obligation(s) that timed out, with a %ds limit\n", retried, 180)
		dischargeAll(results, solveOpts{OutDir: outDir + "-retry", Timeout: 180 * time.Second, Seed: seed + 7, All: false, Jobs: 4})
	}
	findings := readFindings(filepath.Join(verif, "KNOWN_FINDINGS.txt"))
	isKnown := func(name string) *finding {
		b := shortObl(baseName(name))
		for i := range findings {
			f := &findings[i]
			if f.Kind == "finding" && f.Prop == prop && f.Obl == b {
				return f
			}
		}
		return nil
	}
	cr := &checkResult{results: results}
	for _, cf := range e.cfiles {
		for k, why := range cf.Broken {
			cr.hardErrors = append(cr.hardErrors, "contract "+k+" no longer matches the tree: "+why)
		}
	}
	classSeen := map[string]bool{}
	var oreps []oblReport
	var freps []funcReport
	var assumptions []string
	addAss := func(s string) {
		for _, a := range assumptions {
			if a == s {
				return
			}
		}
		assumptions = append(assumptions, s)
	}
	smokeOK, smokeTotal := 0, 0
	var samples []interface{}
	reportedKnown := map[string]bool{}
	for _, r := range results {
		fr := funcReport{Contract: r.Key, Function: shortObl(r.Fn), Trusted: r.Trusted, Error: r.Err}
		if fn := e.fnOf[r.Key]; fn != nil {
			fr.SSAHash = ssaHash(fn)
		}
		if r.Trusted != "" {
			addAss("trusted contract (assumed, body not verified): " + r.Key + " -- " + r.Trusted)
		}
		if r.Err != "" {
			cr.hardErrors = append(cr.hardErrors, r.Key+": "+r.Err)
		}
		for _, a := range r.Assumptions {
			addAss(a)
		}
		for _, o := range r.Obls {
			if o.Kind != "assert" {
				smokeTotal++
				if o.Status == "vacuous" {
					if scls := shortObl(baseName(o.Name)); lock[scls] {
						// this program point was reachable under the contracts' assumptions on the unchanged
						// tree: the code now contradicts something the contracts assume there (an invariant
						// or a callee postcondition no longer fits), and everything after it would be
						// discharged vacuously
						o.Output = "the assumptions at this program point are contradictory on this tree (they were satisfiable on the unchanged tree); obligations after it are vacuous"
						rp := writeReplayStub(verif, prop, o, "reachable program point became unreachable under the contracts' assumptions")
						cr.violations = append(cr.violations, fmt.Sprintf("VIOLATION property=%s replay=%s no-failing-input-found", prop, rp))
					} else {
						cr.hardErrors = append(cr.hardErrors, "vacuity: "+o.Name+" (the assumptions at this point are contradictory)")
					}
				} else {
					smokeOK++
				}
				continue
			}
			cls := shortObl(baseName(o.Name))
			classSeen[cls] = true
			// obligations that were never discharged on the unchanged tree (not in the lock file) and
			// are undecided now are work in progress on the contracts: they are listed separately
			// (undecided_not_locked) and are not part of what the check claims
			// lock-discipline obligations ("this point must be unreachable": rank inversion, re-acquire,
			// release of a lock that is not held) do not exist on the unchanged tree; one that cannot be
			// discharged is reported even though no lock entry exists for it
			lockDiscipline := strings.Contains(o.Name, "#lock:")
			// "?class" entries of the lock file: obligations that were already undecided on the unchanged
			// tree (contracts in progress).  Every other obligation is claimed: the ones discharged on the
			// unchanged tree (locked) and the ones a change to the code newly introduces.
			wip := lock["?"+cls]
			if o.Status == "undecided" && wip && !lockDiscipline && isKnown(o.Name) == nil {
				cr.undecided = append(cr.undecided, shortObl(o.Name)+" ("+o.Status+")")
				continue
			}
			fr.Obligations++
			cr.obligations++
			oreps = append(oreps, oblReport{Name: shortObl(o.Name), Status: o.Status, Backend: o.Backend, TimeS: o.Time, Tags: o.Tags})
			if o.Status == "discharged" {
				fr.Discharged++
				cr.discharged++
				if len(samples) < 3 && !isAuxClass(o.Name) && o.Backend != "trivial" {
					samples = append(samples, map[string]interface{}{"obligation": shortObl(o.Name), "backend": o.Backend, "solver_s": o.Time,
						"goal_smt_excerpt": excerpt(o.Goal, 400)})
				}
				continue
			}
			if f := isKnown(o.Name); f != nil {
				if !reportedKnown[f.Text] {
					reportedKnown[f.Text] = true
					cr.known = append(cr.known, fmt.Sprintf("KNOWN-FINDING: property=%s %s", prop, strings.TrimSpace(strings.TrimPrefix(f.Text, "property="+prop))))
				}
				continue
			}
			switch o.Status {
			case "refuted":
				rp, reproduced := replayed[o], replayed[o] != ""
				if !reproduced {
					rp, reproduced = makeReplay(e, verif, prop, r, o)
				}
				if reproduced {
					cr.violations = append(cr.violations, fmt.Sprintf("VIOLATION property=%s replay=%s", prop, rp))
				} else {
					cr.violations = append(cr.violations, fmt.Sprintf("VIOLATION property=%s replay=%s no-failing-input-found", prop, rp))
				}
			default:
				if !wip || lockDiscipline {
					// no model from the solvers: a candidate input from the quantifier-free weakening
					// may still replay on the real code
					o.Output = "locked obligation no longer discharges (" + o.Status + ")\n" + o.Output
					rp, reproduced := makeReplay(e, verif, prop, r, o)
					if reproduced {
						cr.violations = append(cr.violations, fmt.Sprintf("VIOLATION property=%s replay=%s", prop, rp))
					} else {
						cr.violations = append(cr.violations, fmt.Sprintf("VIOLATION property=%s replay=%s no-failing-input-found", prop, rp))
					}
				} else {
					cr.undecided = append(cr.undecided, shortObl(o.Name)+" ("+o.Status+")")
					cr.obligations--
					fr.Obligations--
				}
			}
		}
		freps = append(freps, fr)
	}
	// locked classes that were not generated at all
	var missing []string
	for cls := range lock {
		if strings.HasPrefix(cls, "?") {
			continue
		}
		if !classSeen[cls] && !isAuxClass(cls) {
			missing = append(missing, cls)
		}
	}
	sort.Strings(missing)
	var reallyMissing []string
	for _, cls := range missing {
		if isKnown(cls) == nil {
			reallyMissing = append(reallyMissing, cls)
		}
	}
	if len(reallyMissing) > 0 {
		// one violation for the whole group: they share a cause (a function or clause was removed or
		// renamed, a contract no longer matches the tree, or VC generation of a function failed)
		o := &Obl{Name: fmt.Sprintf("%d locked obligations no longer generated (first: %s)", len(reallyMissing), reallyMissing[0]), Status: "missing",
			Output: "these obligations were discharged on the unchanged tree and are no longer generated:\n  " + strings.Join(reallyMissing, "\n  ") +
				"\ncause(s) reported by the engine:\n  " + strings.Join(cr.hardErrors, "\n  ")}
		rp := writeReplayStub(verif, prop, o, "locked obligations missing")
		cr.violations = append(cr.violations, fmt.Sprintf("VIOLATION property=%s replay=%s no-failing-input-found", prop, rp))
	}
	// bounded stand-ins registered for this property (labelled bounded in the evidence)
	bviol, breps, bhard := runBounded(repo, verif, prop, tier, seed)
	cr.violations = append(cr.violations, bviol...)
	cr.bounded = breps
	for _, h := range bhard {
		cr.hardErrors = append(cr.hardErrors, "bounded: "+h)
	}
	cr.wall = time.Since(t0).Seconds()
	if writeEvidence {
		level := e.levelOf(verif, prop)
		ev := map[string]interface{}{
			"property_id": prop, "tier": tier, "seed": seed, "level": level, "wall_s": cr.wall,
			"violations": len(cr.violations), "assumptions": append(assumptions, globalAssumptions...),
		}
		if len(samples) == 0 {
			samples = append(samples, "no non-trivial obligation discharged")
		}
		cov := map[string]interface{}{
			"obligations": cr.obligations, "discharged": cr.discharged,
			"checker_cmd":  fmt.Sprintf("/verif/bin/govc check --property %s --tier %s", prop, tier),
			"trusted_base": trustedBase, "samples": samples,
			"functions_under_contract": freps, "obligation_results": oreps,
			"undecided_not_locked": cr.undecided, "vacuity_checks": map[string]int{"run": smokeTotal, "ok": smokeOK},
			"locked_classes": len(lock), "known_findings_reported": cr.known,
			"engine_errors": cr.hardErrors, "bounded_checks": breps,
			"explanation": explanationFor(prop, cr),
			"arithmetic":  "machine integers are exact bit-vectors (no mathematical-integer abstraction); references are unbounded integers; time.Time is a real number of seconds",
		}
		ev["coverage"] = cov
		os.MkdirAll(filepath.Join(verif, "evidence"), 0o755)
		js, _ := json.MarshalIndent(ev, "", " ")
		os.WriteFile(filepath.Join(verif, "evidence", prop+".json"), js, 0o644)
	}
	for _, k := range cr.known {
		fmt.Println(k)
	}
	for _, v := range cr.violations {
		fmt.Println(v)
	}
	fmt.Printf("property %s: %d/%d obligations discharged, %d undecided (not locked), %d violations, %d known findings, %.1fs\n",
		prop, cr.discharged, cr.obligations, len(cr.undecided), len(cr.violations), len(cr.known), cr.wall)
	for _, he := range cr.hardErrors {
		fmt.Fprintln(os.Stderr, "engine:", he)
	}
	if len(cr.violations) > 0 {
		return 1, nil
	}
	// engine errors and vacuity failures are not violations; they make the run unusable
	for _, he := range cr.hardErrors {
		if strings.HasPrefix(he, "vacuity:") || strings.HasPrefix(he, "bounded:") {
			return 2, nil
		}
	}
	return 0, nil
}

func excerpt(s string, n int) string {
	if len(s) > n {
		return s[:n] + "..."
	}
	return s
}

var trustedBase = []string{
	"Go toolchain 1.25.0 and golang.org/x/tools/go/ssa v0.29.0 (source -> SSA translation)",
	"govc: symbolic executor over SSA, built-in models of append/copy/make/len/cap, map theory instances, trigger inference",
	"SMT solvers z3 4.8.12, z3 5.1.0, cvc5 1.0.3 (an unsat answer from one of them is accepted)",
	"Go semantics: mutex mutual exclusion, channel FIFO, sequentially consistent atomics",
}

var globalAssumptions = []string{
	"type parameters are identified by name across the methods of a generic type",
	"user callbacks (OnEvict, OnReject, OnExit, Cost, ShouldUpdate, KeyToHash, IterValues callback) are functions of their arguments and do not re-enter the cache",
	"memory reached through two differently typed slices does not alias (except the modelled []uint64 / *uint8 view in z/bbloom.go; the []uint64 view of a byte slice in z/btree.go is a separate heap named by gcU64, connected to the bytes only by the stated words-survive hypothesis)",
}

func explanationFor(prop string, cr *checkResult) string {
	s := fmt.Sprintf("Contract-based deductive verification: the functions in this property's cone are symbolically executed from /repo's current SSA against their contracts (kept in the comment-only contracts_verif.go files); every generated obligation is discharged by an SMT solver for all inputs and all loop iterations. %d obligations claimed on this run, %d discharged; %d obligations of contracts still in progress are listed under undecided_not_locked and are not claimed.", cr.obligations, cr.discharged, len(cr.undecided))
	for _, b := range cr.bounded {
		s += fmt.Sprintf(" BOUNDED stand-in (not a proof): driver %s ran with bound [%s] and found %d divergence(s) from the reference model.", b.Driver, b.Bound, len(b.Violations))
	}
	return s
}

func (e *Engine) levelOf(verif, prop string) string {
	data, err := os.ReadFile(filepath.Join(verif, "MANIFEST.json"))
	if err != nil {
		return "proof"
	}
	var m struct {
		Checks []struct {
			PropertyID string `json:"property_id"`
			Level      struct {
				Category string `json:"category"`
			} `json:"level_claimed"`
		} `json:"checks"`
	}
	if json.Unmarshal(data, &m) == nil {
		for _, c := range m.Checks {
			if c.PropertyID == prop && c.Level.Category != "" {
				return c.Level.Category
			}
		}
	}
	return "proof"
}

func writeReplayStub(verif, prop string, o *Obl, why string) string {
	dir := replayDir(verif)
	os.MkdirAll(dir, 0o755)
	nm := sanitize(shortObl(o.Name))
	if len(nm) > 120 {
		nm = nm[:120]
	}
	p := filepath.Join(dir, prop+"-"+nm+".json")
	js, _ := json.MarshalIndent(map[string]interface{}{
		"property": prop, "obligation": shortObl(o.Name), "status": o.Status, "reason": why,
		"solver_output": o.Output, "failing_input": nil,
	}, "", " ")
	os.WriteFile(p, js, 0o644)
	return p
}

// writeLock records every obligation class that discharges on the current tree.
func writeLock(repo, verif string, props []string, timeout int) error {
	if len(props) == 0 {
		for i := 1; i <= 20; i++ {
			props = append(props, fmt.Sprintf("C%02d", i))
		}
	}
	old := readLock(filepath.Join(verif, "obligations.lock"))
	e, err := loadEngine(repo, "")
	if err != nil {
		return err
	}
	to := 60 * time.Second
	if timeout > 0 {
		to = time.Duration(timeout) * time.Second
	}
	for _, p := range props {
		results := verifyCone(e, p)
		for _, fc := range e.skipped {
			tagged := false
			for _, c := range fc.Ensures {
				tagged = tagged || hasTag(c.Tags, p)
			}
			if !tagged {
				continue
			}
			if e2, err := loadEngine(repo, "arm64"); err == nil {
				k := fc.Key()
				if _, ok := e2.infos[k]; ok {
					r := e2.verifyFunc(k)
					for _, o := range r.Obls {
						o.Name = strings.Replace(o.Name, "#", "[arm64]#", 1)
					}
					results = append(results, r)
				}
			}
		}
		if len(results) == 0 {
			delete(old, p)
			continue
		}
		dischargeAll(results, solveOpts{OutDir: filepath.Join(verif, "out", "lock-"+p), Timeout: to, Seed: 0, Jobs: 8})
		classes := map[string]bool{}
		bad := map[string]bool{}
		n := 0
		for _, r := range results {
			for _, o := range r.Obls {
				if o.Kind != "assert" {
					// reachability (smoke) points that are satisfiable on the unchanged tree
					if (o.Kind == "smoke" || o.Kind == "smoke-path") && strings.HasPrefix(o.Status, "ok-") {
						classes[shortObl(baseName(o.Name))] = true
					}
					continue
				}
				cls := shortObl(baseName(o.Name))
				// only lock what discharges well under the retry limit of `check` (180 s)
				if o.Status == "discharged" && o.Time < 45 {
					classes[cls] = true
				} else {
					bad[cls] = true
					fmt.Printf("not locked (%s, %.1fs): %s\n", o.Status, o.Time, cls)
				}
			}
		}
		old[p] = map[string]bool{}
		for c := range classes {
			if !bad[c] {
				old[p][c] = true
				n++
			}
		}
		for c := range bad {
			old[p]["?"+c] = true // undecided (or too slow) on the unchanged tree: work in progress, not claimed
		}
		fmt.Printf("%s: %d obligation classes locked\n", p, n)
	}
	var lines []string
	for p, cs := range old {
		for c := range cs {
			lines = append(lines, p+"\t"+c)
		}
	}
	sort.Strings(lines)
	hdr := "# obligation classes discharged on the unchanged tree, per property (written by `govc lock`; never edited at run time)\n"
	return os.WriteFile(filepath.Join(verif, "obligations.lock"), []byte(hdr+strings.Join(lines, "\n")+"\n"), 0o644)
}
