package main

import (
	"fmt"
	"go/token"
	"go/types"
	"strings"

	"golang.org/x/tools/go/ssa"
)

// ---- locks -------------------------------------------------------------------------

func lockKey(lv *LVal) string { return fmt.Sprintf("%s#%d@%s", lv.TK, lv.Leaf, lv.Ref) }

// lockOp models sync.Mutex / RWMutex operations as monitor operations:
// acquire = havoc the guarded fields and assume the lock invariant,
// release = assert the lock invariant.
func (vc *VC) lockOp(fr *Frame, recv SV, mode int, acquire bool, pos token.Pos) {
	if vc.pure > 0 {
		return
	}
	lv := recv.LV
	if lv == nil {
		// a mutex reached through a pointer value (e.g. the package-level `allocsMu *sync.Mutex`):
		// it has no declared invariant and guards nothing the contracts speak about, so the
		// operation is a no-op for the sequential state; recorded as an assumption
		vc.noteAssumption("a mutex held through a pointer variable (no declared invariant) is treated as a no-op: " + vc.root.String())
		return
	}
	key := lockKey(lv)
	li := vc.eng.lockInvFor(lv)
	if acquire {
		if vc.st.Locks[key] != 0 {
			vc.oblige("lock:reacquire", []string{"C08"}, "false")
		}
		vc.rankCheck(lv, li)
		vc.st.Locks[key] = mode
		if li != nil {
			locs := vc.lockAcquire(li, lv)
			if vc.st.Held == nil {
				vc.st.Held = map[string]*heldLock{}
			}
			vc.st.Held[key] = &heldLock{inv: li, mode: mode, locs: locs}
		}
		return
	}
	if vc.st.Locks[key] != mode {
		// the same mutex may be named by a syntactically different (but equal) reference
		prefix := fmt.Sprintf("%s#%d@", lv.TK, lv.Leaf)
		var cands []string
		for k, m := range vc.st.Locks {
			if strings.HasPrefix(k, prefix) && m == mode {
				cands = append(cands, k)
			}
		}
		if len(cands) == 1 {
			vc.oblige("lock:release-same-instance", []string{"C08"}, eq(lv.Ref, strings.TrimPrefix(cands[0], prefix)))
			key = cands[0]
		} else {
			vc.oblige("lock:release-not-held", []string{"C08"}, "false")
		}
	}
	if li != nil {
		vc.lockRelease(li, lv, mode)
	}
	delete(vc.st.Locks, key)
	delete(vc.st.Held, key)
}

// ---- guard discipline (a sufficient condition for the absence of data races) ---------

type guardKind struct {
	space  byte
	tk     string
	lo, hi int
	inv    *LockInv
}

func (vc *VC) guardKindsOnce() []guardKind {
	if vc.gkDone {
		return vc.gkinds
	}
	vc.gkDone = true
	for _, cf := range vc.eng.cfiles {
		for _, li := range cf.LockInvs {
			if len(li.Guards) == 0 {
				continue
			}
			self := SV{L: []string{"gk!self"}}
			if !vc.declared["gk!self"] {
				vc.declared["gk!self"] = true
				vc.decls = append(vc.decls, "(declare-const gk!self Int)")
			}
			func() {
				defer func() {
					if r := recover(); r != nil {
						if _, ok := r.(vcError); !ok {
							panic(r)
						}
					}
				}()
				for _, l := range vc.guardLocs(li, self) {
					if l.Space == 'E' || l.Ref == "*" {
						// slice contents and "every map stored in this map": the kind is too coarse for a
						// discipline check (a detached bucket is owned by the sweeper); still havocked on acquire
						continue
					}
					vc.gkinds = append(vc.gkinds, guardKind{l.Space, l.TK, l.Lo, l.Hi, li})
				}
			}()
		}
	}
	return vc.gkinds
}

func (vc *VC) holdsAttr(invType string) bool {
	if vc.fi == nil {
		return false
	}
	if _, ok := vc.fi.C.Attrs["constructor"]; ok {
		return true
	}
	for _, h := range strings.Split(vc.fi.C.Attrs["holds"], ";") {
		if strings.TrimSpace(h) == invType {
			return true
		}
	}
	return false
}

// accessCheck obliges an access to guarded memory to happen under its lock.
func (vc *VC) accessCheck(l Loc, write bool) {
	if vc.pure > 0 || vc.fi == nil {
		return
	}
	for _, gk := range vc.guardKindsOnce() {
		if gk.space != l.Space || gk.tk != l.TK {
			continue
		}
		if gk.hi != 0 && l.Hi != 0 && (l.Hi <= gk.lo || l.Lo >= gk.hi) {
			continue
		}
		if vc.holdsAttr(gk.inv.Type) {
			return
		}
		alts := []string{}
		if l.Ref != "*" {
			alts = append(alts, vc.isFreshRef(l.Ref))
		}
		for _, h := range vc.st.Held {
			if h.inv != gk.inv || (write && h.mode != 1) {
				continue
			}
			for _, g := range h.locs {
				alts = append(alts, locWithin(l, g))
			}
		}
		what := "read"
		if write {
			what = "write"
		}
		vc.oblige("guard:"+what+":"+gk.inv.Type+":"+shortTK(l.TK), []string{"C08"}, or(alts...))
		return
	}
}

func (vc *VC) atomicAccess(lv *LVal) {}

// isShared reports whether a location is declared `shared`: accessed through
// sync/atomic by several goroutines.  Atomic loads of shared cells return an
// arbitrary value (any interleaving), atomic stores have no effect on the verified
// sequential state; what callers may rely on is stated by `assumes` clauses.
func (vc *VC) isShared(lv *LVal) bool {
	for _, cf := range vc.eng.cfiles {
		for _, sh := range cf.Shared {
			if strings.HasPrefix(sh, "cell ") {
				if lv.Space == 'O' && lv.Leaf == 0 && shortTK(lv.TK) == strings.TrimSpace(strings.TrimPrefix(sh, "cell ")) {
					return true
				}
				continue
			}
			parts := strings.SplitN(sh, ".", 2)
			if len(parts) != 2 || lv.Space != 'O' {
				continue
			}
			if !(strings.HasSuffix(lv.TK, "."+parts[0]) || strings.HasSuffix(lv.TK, "."+parts[0]+"[]")) {
				continue
			}
			ot := vc.eng.tkTypes[lv.TK]
			if ot == nil {
				ot = lv.ObjT
			}
			if st, ok := ot.Underlying().(*types.Struct); ok {
				for i := 0; i < st.NumFields(); i++ {
					if st.Field(i).Name() == parts[1] {
						lo, hi := vc.eng.fieldRange(st, i)
						if lv.Leaf >= lo && lv.Leaf < hi {
							return true
						}
					}
				}
			}
		}
	}
	return false
}

func (vc *VC) guardCheck(lv *LVal, write bool) {
	if vc.pure > 0 || lv.Space == 'V' {
		return
	}
	n := len(vc.eng.layoutOf(lv.Typ).L)
	vc.accessCheck(Loc{Space: lv.Space, TK: lv.TK, Lo: lv.Leaf, Hi: lv.Leaf + n, Ref: lv.Ref, Idx: lv.Idx}, write)
}

func (vc *VC) guardCheckMap(fr *Frame, m ssa.Value, write bool) {
	if vc.pure > 0 {
		return
	}
	mi := vc.eng.mapInfoOf(m.Type())
	vc.accessCheck(Loc{Space: 'M', TK: mi.Key, Ref: vc.val(fr, m).L[0]}, write)
}

func (vc *VC) lockEffects(fi *FuncInfo, args []SV) {}

func (vc *VC) noteStoreMeta(fr *Frame, lv *LVal, v SV) {
	if v.Fn != nil || v.LV != nil {
		if vc.meta == nil {
			vc.meta = map[string]SV{}
		}
		vc.meta[fmt.Sprintf("%c:%s#%d@%s@%s", lv.Space, lv.TK, lv.Leaf, lv.Ref, lv.Idx)] = v
	}
}

func (vc *VC) loadMeta(fr *Frame, lv *LVal, out *SV) {
	if vc.meta == nil {
		return
	}
	if m, ok := vc.meta[fmt.Sprintf("%c:%s#%d@%s@%s", lv.Space, lv.TK, lv.Leaf, lv.Ref, lv.Idx)]; ok {
		out.Fn, out.Bind = m.Fn, m.Bind
		if m.LV != nil {
			out.LV = m.LV
		}
	}
}

// noteCallback counts the invocation of a function value whose target is not known
// (a user callback or a closure stored in a field): per function value, the total
// number of calls and the number of calls with a given first argument.
func (vc *VC) noteCallback(fr *Frame, c *ssa.CallCommon, args []SV, fnv *SV) {
	if vc.pure > 0 || fnv == nil {
		return
	}
	f := fnv.L[0]
	one := bvLitI(1, 64)
	// counters are kept per function type: values of different func types never alias
	sk := typeKey(c.Signature())
	tot := vc.heapGet("CB:total:"+sk, chIdxSort)
	vc.heapSet("CB:total:"+sk, chIdxSort, sto(tot, f, "(bvadd "+sel(tot, f)+" "+one+")"))
	if len(args) > 0 && len(args[0].L) > 0 {
		sig := c.Signature()
		ls := vc.eng.layoutOf(sig.Params().At(0).Type()).L
		srt := ls[0].Sort
		name := "CB:with:" + sk
		sort := "(Array Int (Array " + srt + " (_ BitVec 64)))"
		h := vc.heapGet(name, sort)
		a := args[0].L[0]
		vc.heapSet(name, sort, sto(h, f, sto(sel(h, f), a, "(bvadd "+sel(sel(h, f), a)+" "+one+")")))
	}
}

// ---- goroutines and channels ----------------------------------------------------------

func (vc *VC) goStmt(fr *Frame, x *ssa.Go) {
	// spawning is a no-op for the spawner; the callee is verified as a thread entry
	vc.noteAssumption("go statement: the spawned function is verified separately as a thread entry")
}

func (vc *VC) chanInit(ref string, x *ssa.MakeChan) {}

func (vc *VC) chanSend(fr *Frame, ch ssa.Value, v SV, blocking bool, pos token.Pos) {
	vc.eng.chanSend(vc, fr, ch, v, blocking, pos)
}

func (vc *VC) chanRecv(fr *Frame, ch ssa.Value, commaOk bool, pos token.Pos) SV {
	return vc.eng.chanRecv(vc, fr, ch, commaOk, pos)
}

func (vc *VC) chanClose(fr *Frame, ref string, et types.Type) { vc.chanCloseImpl(ref, et) }

func (vc *VC) chanLenT(ref string, et types.Type) string {
	vc.chET = et
	return vc.chanLen(ref)
}

func (vc *VC) chanLen(ref string) string {
	return "(bvsub " + vc.chTail(ref) + " " + vc.chHead(ref) + ")"
}

func (vc *VC) selectStmt(fr *Frame, x *ssa.Select) SV {
	return vc.eng.selectStmt(vc, fr, x)
}

// ---- map iteration ---------------------------------------------------------------------

func (vc *VC) rangeInit(fr *Frame, x *ssa.Range) SV {
	mt, ok := x.X.Type().Underlying().(*types.Map)
	if !ok {
		vc.fail("range over %s is outside the supported subset", x.X.Type())
	}
	mi := vc.eng.mapInfoOf(x.X.Type())
	ref := vc.val(fr, x.X).L[0]
	vc.guardCheckMap(fr, x.X, false)
	empty := fmt.Sprintf("((as const (Array %s Bool)) false)", mi.KSort)
	fr.iters[x] = &mapIter{mi: mi, ref: ref, visited: empty, keyT: mt.Key(), valT: mt.Elem()}
	if vc.usesRangeCount(fr) {
		vc.assume(eq(vc.mcard(mi, empty), bvLitI(0, 64)))
	}
	return SV{L: []string{"0"}}
}

// rangeNext yields an arbitrary not-yet-visited key of the map: every property
// proved of the loop therefore holds for every enumeration order.
func (vc *VC) rangeNext(fr *Frame, x *ssa.Next) SV {
	it := fr.iters[x.Iter]
	if it == nil {
		vc.fail("Next on an unknown iterator")
	}
	mi := it.mi
	dom := vc.def("(Array "+mi.KSort+" Bool)", vc.mapDom(mi, it.ref))
	ok := vc.fresh("Bool", "rng_ok")
	k := vc.fresh(mi.KSort, "rng_key")
	// ok <=> some unvisited key remains; if ok the key is in dom \ visited
	vc.assume(implies(ok, and(sel(dom, k), not(sel(it.visited, k)))))
	vc.assume(implies(not(ok), fmt.Sprintf("(forall ((k!q %s)) (! (=> (select %s k!q) (select %s k!q)) :pattern ((select %s k!q))))", mi.KSort, dom, it.visited, dom)))
	out := SV{L: []string{ok, k}}
	for j, li := range mi.VLeaves {
		out.L = append(out.L, vc.def(li.Sort, sel(vc.mapVal(mi, it.ref, j), k)))
	}
	nv := vc.def("(Array "+mi.KSort+" Bool)", ite(ok, sto(it.visited, k, "true"), it.visited))
	if vc.usesRangeCount(fr) {
		// cardinality of the visited set (named rangecount in loop invariants): it grows by one with
		// every entry enumerated and, the map not being written during the loop (checked in
		// usesRangeCount), equals the map's cardinality when the enumeration ends
		c0, c1 := vc.mcard(mi, it.visited), vc.mcard(mi, nv)
		vc.assume(and("(bvsle (_ bv0 64) "+c0+")", "(bvslt "+c0+" (_ bv4611686018427387904 64))"))
		vc.assume(implies(ok, eq(c1, "(bvadd "+c0+" (_ bv1 64))")))
		vc.assume(implies(not(ok), eq(c0, vc.mcard(mi, dom))))
	}
	it.visited = nv
	return out
}

func (vc *VC) rangeHavoc(fr *Frame, li *loopInfo) {
	it := fr.iters[li.rangeIt]
	if it == nil {
		return
	}
	it.visited = vc.fresh("(Array "+it.mi.KSort+" Bool)", "visited")
}

// ---- unsafe pointer arithmetic ----------------------------------------------------------

func (vc *VC) ptrToUintptr(a SV) SV {
	// abstract address: addr(base) + byte offset, carried symbolically through LV
	vc.declareUF("addrof", "(Int) (_ BitVec 64)")
	if a.LV == nil {
		return SV{L: []string{"(addrof " + a.L[0] + ")"}}
	}
	lv := a.LV
	off := bvLitI(0, 64)
	if lv.Space == 'E' {
		sz := vc.eng.sizeof(lv.ObjT)
		off = "(bvmul " + lv.Idx + " " + bvLitI(sz, 64) + ")"
	}
	return SV{L: []string{vc.def(bvSort(64), "(bvadd (addrof "+lv.Ref+") "+off+")")}, LV: lv, POff: a.POff}
}

func (vc *VC) uintptrToPtr(a SV) SV {
	if a.LV == nil {
		vc.fail("conversion uintptr -> unsafe.Pointer of a value not derived from a pointer")
	}
	return SV{L: []string{a.LV.Ref}, LV: a.LV, POff: a.POff}
}

// usesRangeCount: the contract of the function under execution mentions `rangecount`, and the
// function writes no map (no m[k] = v, no delete), so that the set of entries enumerated by a
// range loop is a subset of the map throughout.
func (vc *VC) usesRangeCount(fr *Frame) bool {
	if fr == nil || fr.fi == nil || fr.fi.C == nil {
		return false
	}
	uses := false
	for _, cs := range fr.fi.C.LoopInv {
		for _, c := range cs {
			for _, n := range c.Locals {
				if n == "rangecount" {
					uses = true
				}
			}
		}
	}
	if !uses {
		return false
	}
	for _, b := range fr.fn.Blocks {
		for _, ins := range b.Instrs {
			switch x := ins.(type) {
			case *ssa.MapUpdate:
				vc.fail("rangecount used in %s, which writes a map", fr.fn.Name())
			case *ssa.Call:
				if bi, ok := x.Call.Value.(*ssa.Builtin); ok && bi.Name() == "delete" {
					vc.fail("rangecount used in %s, which deletes from a map", fr.fn.Name())
				}
			}
		}
	}
	return true
}
