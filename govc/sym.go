package main

import (
	"fmt"
	"go/types"
	"math/big"
	"regexp"
	"sort"
	"strings"
)

// ---- sorts and layouts -------------------------------------------------------
//
// Every Go value is a flat vector of SMT terms ("leaves").  Machine integers are
// exact bit-vectors; references (pointers, maps, channels, closures, interface
// values, slice bases) are Int; time.Time is Real (seconds, unbounded); type
// parameters, strings and floats are uninterpreted sorts.

type leafKind int

const (
	kBV leafKind = iota
	kBool
	kRef
	kTime
	kUninterp
	kArr // lifted (fixed-size array of something)
)

type leafInfo struct {
	Sort   string
	Kind   leafKind
	Path   string
	W      int // bit width for kBV
	Signed bool
}

type layout struct {
	L []leafInfo
}

func bvSort(w int) string { return fmt.Sprintf("(_ BitVec %d)", w) }

func bvLit(v *big.Int, w int) string {
	m := new(big.Int).Lsh(big.NewInt(1), uint(w))
	x := new(big.Int).Mod(v, m)
	return fmt.Sprintf("(_ bv%s %d)", x.String(), w)
}

func bvLitI(v int64, w int) string { return bvLit(big.NewInt(v), w) }

func basicWidth(b *types.Basic) (int, bool, bool) { // width, signed, ok
	switch b.Kind() {
	case types.Int8:
		return 8, true, true
	case types.Int16:
		return 16, true, true
	case types.Int32:
		return 32, true, true
	case types.Int64, types.Int, types.UntypedInt, types.UntypedRune:
		return 64, true, true
	case types.Uint8:
		return 8, false, true
	case types.Uint16:
		return 16, false, true
	case types.Uint32:
		return 32, false, true
	case types.Uint64, types.Uint, types.Uintptr:
		return 64, false, true
	}
	return 0, false, false
}

// typeKey is the canonical name of a type.  Type arguments of generic named types
// are erased (lockedMap[V] and lockedMap[_] are the same heap region): inside the
// generic bodies that are verified, a generic type only occurs at its own parameters.
var reByte = regexp.MustCompile(`\bbyte\b`)
var reRune = regexp.MustCompile(`\brune\b`)

func typeKey(t types.Type) string {
	s := types.TypeString(t, func(p *types.Package) string { return p.Path() })
	// byte and rune are aliases: one heap region per underlying type
	if strings.Contains(s, "byte") {
		s = reByte.ReplaceAllString(s, "uint8")
	}
	if strings.Contains(s, "rune") {
		s = reRune.ReplaceAllString(s, "int32")
	}
	if !strings.Contains(s, "[") {
		return s
	}
	var b strings.Builder
	for i := 0; i < len(s); i++ {
		if s[i] == '[' && i > 0 && isIdentChar(s[i-1]) && !strings.HasSuffix(s[:i], "map") {
			depth := 0
			j := i
			for ; j < len(s); j++ {
				if s[j] == '[' {
					depth++
				} else if s[j] == ']' {
					depth--
					if depth == 0 {
						break
					}
				}
			}
			b.WriteString("[]")
			i = j
			continue
		}
		b.WriteByte(s[i])
	}
	return b.String()
}

func (e *Engine) layoutOf(t types.Type) *layout {
	k := typeKey(t) + e.substSig()
	if l, ok := e.layouts[k]; ok {
		return l
	}
	l := &layout{}
	e.layouts[k] = l // recursion guard (recursive types only through pointers)
	l.L = e.computeLeaves(t, "")
	return l
}

func isNamed(t types.Type, pkg, name string) bool {
	n, ok := types.Unalias(t).(*types.Named)
	if !ok {
		return false
	}
	o := n.Obj()
	return o.Pkg() != nil && o.Pkg().Path() == pkg && o.Name() == name
}

func namedPkg(t types.Type) string {
	n, ok := types.Unalias(t).(*types.Named)
	if !ok || n.Obj().Pkg() == nil {
		return ""
	}
	return n.Obj().Pkg().Path()
}

func (e *Engine) computeLeaves(t types.Type, path string) []leafInfo {
	t = types.Unalias(t)
	if isNamed(t, "time", "Time") {
		return []leafInfo{{Sort: "Real", Kind: kTime, Path: path}}
	}
	switch namedPkg(t) {
	case "sync":
		return []leafInfo{{Sort: "Int", Kind: kRef, Path: path}}
	case "sync/atomic":
		n := t.(*types.Named).Obj().Name()
		switch n {
		case "Bool":
			return []leafInfo{{Sort: "Bool", Kind: kBool, Path: path}}
		case "Int32":
			return []leafInfo{{Sort: bvSort(32), Kind: kBV, W: 32, Signed: true, Path: path}}
		case "Uint32":
			return []leafInfo{{Sort: bvSort(32), Kind: kBV, W: 32, Path: path}}
		case "Int64":
			return []leafInfo{{Sort: bvSort(64), Kind: kBV, W: 64, Signed: true, Path: path}}
		case "Uint64", "Uintptr":
			return []leafInfo{{Sort: bvSort(64), Kind: kBV, W: 64, Path: path}}
		default:
			return []leafInfo{{Sort: "Int", Kind: kRef, Path: path}}
		}
	}
	switch u := t.Underlying().(type) {
	case *types.Basic:
		if w, s, ok := basicWidth(u); ok {
			return []leafInfo{{Sort: bvSort(w), Kind: kBV, W: w, Signed: s, Path: path}}
		}
		switch {
		case u.Info()&types.IsBoolean != 0:
			return []leafInfo{{Sort: "Bool", Kind: kBool, Path: path}}
		case u.Info()&types.IsString != 0:
			e.needSort("GoString")
			return []leafInfo{{Sort: "GoString", Kind: kUninterp, Path: path}}
		case u.Info()&types.IsFloat != 0:
			e.needSort("F64")
			return []leafInfo{{Sort: "F64", Kind: kUninterp, Path: path}}
		case u.Kind() == types.UnsafePointer:
			return []leafInfo{{Sort: "Int", Kind: kRef, Path: path}}
		case u.Kind() == types.UntypedNil:
			return []leafInfo{{Sort: "Int", Kind: kRef, Path: path}}
		case u.Kind() == types.Invalid:
			// the unused key of `for _, v := range m`
			return []leafInfo{{Sort: "Int", Kind: kRef, Path: path}}
		}
		e.needSort("GoOther")
		return []leafInfo{{Sort: "GoOther", Kind: kUninterp, Path: path}}
	case *types.Pointer, *types.Map, *types.Chan, *types.Signature, *types.Interface:
		return []leafInfo{{Sort: "Int", Kind: kRef, Path: path}}
	case *types.Slice:
		return []leafInfo{
			{Sort: "Int", Kind: kRef, Path: path + ".base"},
			{Sort: bvSort(64), Kind: kBV, W: 64, Signed: true, Path: path + ".off"},
			{Sort: bvSort(64), Kind: kBV, W: 64, Signed: true, Path: path + ".len"},
			{Sort: bvSort(64), Kind: kBV, W: 64, Signed: true, Path: path + ".cap"},
		}
	case *types.Struct:
		var out []leafInfo
		for i := 0; i < u.NumFields(); i++ {
			f := u.Field(i)
			out = append(out, e.computeLeaves(f.Type(), path+"."+f.Name())...)
		}
		return out
	case *types.Array:
		sub := e.computeLeaves(u.Elem(), path+"[]")
		var out []leafInfo
		for _, s := range sub {
			out = append(out, leafInfo{Sort: "(Array (_ BitVec 64) " + s.Sort + ")", Kind: kArr, Path: s.Path})
		}
		return out
	case *types.Tuple:
		var out []leafInfo
		for i := 0; i < u.Len(); i++ {
			out = append(out, e.computeLeaves(u.At(i).Type(), fmt.Sprintf("%s.%d", path, i))...)
		}
		return out
	}
	if tp, ok := t.(*types.TypeParam); ok {
		name := tp.Obj().Name()
		for i := len(e.subst) - 1; i >= 0; i-- {
			ta, ok := e.subst[i][name]
			if !ok {
				continue
			}
			if tp2, ok := ta.(*types.TypeParam); ok {
				name = tp2.Obj().Name()
				continue
			}
			saved := e.subst
			e.subst = e.subst[:i]
			out := e.computeLeaves(ta, path)
			e.subst = saved
			return out
		}
		s := "TP_" + name
		e.needSort(s)
		return []leafInfo{{Sort: s, Kind: kUninterp, Path: path}}
	}
	panic(fmt.Sprintf("layout: unsupported type %s (%T)", t, t))
}

func (e *Engine) needSort(s string) { e.sorts[s] = true }

func (e *Engine) substSig() string {
	if len(e.subst) == 0 {
		return ""
	}
	var b strings.Builder
	for _, m := range e.subst {
		b.WriteString("|")
		var ks []string
		for k := range m {
			ks = append(ks, k)
		}
		sort.Strings(ks)
		for _, k := range ks {
			b.WriteString(k + "=" + typeKey(m[k]) + ";")
		}
	}
	return b.String()
}

// fieldRange returns [lo,hi) leaf range of field i in struct type t.
func (e *Engine) fieldRange(st *types.Struct, i int) (int, int) {
	lo := 0
	for j := 0; j < i; j++ {
		lo += len(e.layoutOf(st.Field(j).Type()).L)
	}
	return lo, lo + len(e.layoutOf(st.Field(i).Type()).L)
}

func (e *Engine) tupleRange(tt *types.Tuple, i int) (int, int) {
	lo := 0
	for j := 0; j < i; j++ {
		lo += len(e.layoutOf(tt.At(j).Type()).L)
	}
	return lo, lo + len(e.layoutOf(tt.At(i).Type()).L)
}

func zeroOfSort(li leafInfo) string {
	switch li.Kind {
	case kBV:
		return bvLitI(0, li.W)
	case kBool:
		return "false"
	case kRef:
		return "0"
	case kTime:
		return "0.0"
	case kUninterp:
		return "zero_" + li.Sort
	case kArr:
		// (Array (_ BitVec 64) S): constant array of S's zero
		inner := strings.TrimSuffix(strings.TrimPrefix(li.Sort, "(Array (_ BitVec 64) "), ")")
		return fmt.Sprintf("((as const %s) %s)", li.Sort, zeroOfSortName(inner))
	}
	panic("zeroOfSort")
}

func zeroOfSortName(sort string) string {
	switch {
	case strings.HasPrefix(sort, "(_ BitVec "):
		var w int
		fmt.Sscanf(sort, "(_ BitVec %d)", &w)
		return bvLitI(0, w)
	case sort == "Bool":
		return "false"
	case sort == "Int":
		return "0"
	case sort == "Real":
		return "0.0"
	case strings.HasPrefix(sort, "(Array (_ BitVec 64) "):
		inner := strings.TrimSuffix(strings.TrimPrefix(sort, "(Array (_ BitVec 64) "), ")")
		return fmt.Sprintf("((as const %s) %s)", sort, zeroOfSortName(inner))
	default:
		return "zero_" + sort
	}
}

// ---- symbolic values ---------------------------------------------------------

// LVal is a memory location: object field(s), slice element, or global.
type LVal struct {
	Space    byte   // 'O' object (incl. globals, cells), 'E' slice element
	TK       string // type key of the object / element type
	Leaf     int    // first leaf within the object/element layout
	Typ      types.Type
	Ref      string   // object ref or slice base
	Idx      string   // absolute element index (E space)
	Arr      []string // indices into lifted leaves (array-typed fields), outermost first
	ObjT     types.Type
	Lim      string // E space: absolute index limit (off+len) of the slice the pointer was taken from
	ByteView bool   // *uint8 view into an element of a []uint64 (little-endian)
	BOff     string // byte offset of the view relative to element Idx
}

type SV struct {
	L    []string
	LV   *LVal  // set for pointer values with statically known target
	Fn   *ssaFn // closures
	Bind []SV
	Box  *SV // interface value boxing a non-pointer value
	BoxT types.Type
	POff string // uintptr / unsafe.Pointer derived from LV: byte offset added so far
}

func scalar(t string) SV { return SV{L: []string{t}} }

func and(xs ...string) string {
	var ys []string
	for _, x := range xs {
		if x == "true" || x == "" {
			continue
		}
		if x == "false" {
			return "false"
		}
		ys = append(ys, x)
	}
	switch len(ys) {
	case 0:
		return "true"
	case 1:
		return ys[0]
	}
	return "(and " + strings.Join(ys, " ") + ")"
}

func or(xs ...string) string {
	var ys []string
	for _, x := range xs {
		if x == "false" || x == "" {
			continue
		}
		if x == "true" {
			return "true"
		}
		ys = append(ys, x)
	}
	switch len(ys) {
	case 0:
		return "false"
	case 1:
		return ys[0]
	}
	return "(or " + strings.Join(ys, " ") + ")"
}

func not(x string) string {
	switch x {
	case "true":
		return "false"
	case "false":
		return "true"
	}
	if strings.HasPrefix(x, "(not ") && strings.HasSuffix(x, ")") && balanced(x[5:len(x)-1]) {
		return x[5 : len(x)-1]
	}
	return "(not " + x + ")"
}

func balanced(s string) bool {
	d := 0
	for i := 0; i < len(s); i++ {
		switch s[i] {
		case '(':
			d++
		case ')':
			d--
			if d < 0 {
				return false
			}
		}
	}
	return d == 0
}

func implies(a, b string) string {
	if a == "true" {
		return b
	}
	if b == "true" || a == "false" {
		return "true"
	}
	return "(=> " + a + " " + b + ")"
}

func ite(c, a, b string) string {
	if c == "true" || a == b {
		return a
	}
	if c == "false" {
		return b
	}
	// boolean branches: keep formulas in and/or/not shape (quantifiers stay in one polarity)
	switch {
	case a == "false":
		return and(not(c), b)
	case a == "true":
		return or(c, b)
	case b == "false":
		return and(c, a)
	case b == "true":
		return or(not(c), a)
	}
	return "(ite " + c + " " + a + " " + b + ")"
}

func eq(a, b string) string {
	if a == b {
		return "true"
	}
	return "(= " + a + " " + b + ")"
}

func sel(a, i string) string    { return "(select " + a + " " + i + ")" }
func sto(a, i, v string) string { return "(store " + a + " " + i + " " + v + ")" }

func quoteSym(s string) string {
	ok := true
	for _, c := range s {
		if !(c == '_' || c == '.' || c == '@' || c == '$' || c == '!' || (c >= 'a' && c <= 'z') || (c >= 'A' && c <= 'Z') || (c >= '0' && c <= '9')) {
			ok = false
		}
	}
	if ok && len(s) > 0 && !(s[0] >= '0' && s[0] <= '9') {
		return s
	}
	return "|" + strings.NewReplacer("|", "!", "\\", "/").Replace(s) + "|"
}
