package main

import (
	"fmt"
	"go/token"
	"go/types"
	"os"
	"path/filepath"
	"sort"
	"strings"

	"golang.org/x/tools/go/packages"
	"golang.org/x/tools/go/ssa"
	"golang.org/x/tools/go/ssa/ssautil"
)

var pkgDirs = []string{".", "z", "z/simd"}

type Engine struct {
	repo       string
	fset       *token.FileSet
	prog       *ssa.Program
	pkgs       map[string]*packages.Package // by dir key
	spkgs      map[string]*ssa.Package
	cfiles     map[string]*ContractFile
	infos      map[string]*FuncInfo        // contract key -> info
	byFn       map[*ssa.Function]*FuncInfo // resolved SSA function -> contract
	fnOf       map[string]*ssa.Function    // contract key -> SSA function
	layouts    map[string]*layout
	sorts      map[string]bool
	mapInfos   map[string]*mapInfo
	tkTypes    map[string]types.Type
	subst      []map[string]types.Type
	genSrc     map[string]string
	acqCache   map[*ssa.Function][]string
	implements map[string]string
	goarch     string
	skipped    []*FuncContract // contracts for another GOARCH
}

func pkgKeyOf(e *Engine, p *types.Package) string {
	for k, pk := range e.pkgs {
		if pk.Types == p {
			return k
		}
	}
	return ""
}

func loadEngine(repo string, goarch string) (*Engine, error) {
	e := &Engine{repo: repo, pkgs: map[string]*packages.Package{}, spkgs: map[string]*ssa.Package{}, cfiles: map[string]*ContractFile{},
		infos: map[string]*FuncInfo{}, byFn: map[*ssa.Function]*FuncInfo{}, fnOf: map[string]*ssa.Function{},
		layouts: map[string]*layout{}, sorts: map[string]bool{}, mapInfos: map[string]*mapInfo{}, tkTypes: map[string]types.Type{},
		genSrc: map[string]string{}, implements: map[string]string{}, goarch: goarch}
	for _, d := range pkgDirs {
		p := filepath.Join(repo, d, "contracts_verif.go")
		if _, err := os.Stat(p); err != nil {
			continue
		}
		cf, err := parseContractFile(d, p)
		if err != nil {
			return nil, err
		}
		arch := goarch
		if arch == "" {
			arch = "amd64"
		}
		var keep []*FuncContract
		for _, fc := range cf.Funcs {
			if fc.Arch == "" || fc.Arch == arch || (strings.HasPrefix(fc.Arch, "!") && fc.Arch[1:] != arch) {
				keep = append(keep, fc)
			} else {
				e.skipped = append(e.skipped, fc)
			}
		}
		cf.Funcs = keep
		e.cfiles[d] = cf
	}
	// the toolchain the repository builds with (go.mod: toolchain go1.25.0), offline
	const tc = "/root/go/pkg/mod/golang.org/toolchain@v0.0.1-go1.25.0.linux-amd64/bin"
	if _, err := os.Stat(tc); err == nil && !strings.Contains(os.Getenv("PATH"), tc) {
		os.Setenv("PATH", tc+":"+os.Getenv("PATH"))
	}
	for k, v := range map[string]string{"GOTOOLCHAIN": "local", "GOFLAGS": "-mod=mod", "GOPROXY": "off", "GOSUMDB": "off"} {
		os.Setenv(k, v)
	}
	env := os.Environ()
	if goarch != "" {
		env = append(env, "GOARCH="+goarch)
	}
	load := func(overlay map[string][]byte) ([]*packages.Package, error) {
		cfg := &packages.Config{Mode: packages.LoadSyntax, Dir: repo, BuildFlags: []string{"-tags=verif"}, Overlay: overlay, Env: env}
		pkgs, err := packages.Load(cfg, ".", "./z", "./z/simd")
		if err != nil {
			return nil, err
		}
		for _, p := range pkgs {
			for _, er := range p.Errors {
				return nil, fmt.Errorf("package %s: %v", p.PkgPath, er)
			}
		}
		return pkgs, nil
	}
	// phase 1: types only, to print signatures and local variable types
	pkgs1, err := load(nil)
	if err != nil {
		return nil, fmt.Errorf("loading /repo (phase 1): %v", err)
	}
	byDir := func(pkgs []*packages.Package) map[string]*packages.Package {
		m := map[string]*packages.Package{}
		for _, p := range pkgs {
			switch {
			case strings.HasSuffix(p.PkgPath, "/z/simd"):
				m["z/simd"] = p
			case strings.HasSuffix(p.PkgPath, "/z"):
				m["z"] = p
			default:
				m["."] = p
			}
		}
		return m
	}
	p1 := byDir(pkgs1)
	overlay := map[string][]byte{}
	for d, cf := range e.cfiles {
		// file-level declarations
		for _, dcl := range cf.Decls {
			if strings.HasPrefix(dcl, "implements ") {
				kv := strings.SplitN(strings.TrimPrefix(dcl, "implements "), "=", 2)
				e.implements[strings.TrimSpace(kv[0])] = strings.TrimSpace(kv[1])
			}
		}
		var keep []string
		for _, dcl := range cf.Decls {
			if !strings.HasPrefix(dcl, "implements ") {
				keep = append(keep, dcl)
			}
		}
		cf.Decls = keep
		src, _, err := generate(p1[d], cf)
		if err != nil {
			return nil, err
		}
		e.genSrc[d] = src
		overlay[filepath.Join(repo, d, "zz_govc_generated_verif.go")] = []byte(src)
	}
	pkgs2, err := load(overlay)
	if err != nil {
		if os.Getenv("GOVC_DUMPGEN") != "" {
			for d, s := range e.genSrc {
				fmt.Fprintf(os.Stderr, "---- generated for %s ----\n%s\n", d, s)
			}
		}
		return nil, fmt.Errorf("type-checking the contracts against /repo failed: %v", err)
	}
	e.pkgs = byDir(pkgs2)
	e.fset = pkgs2[0].Fset
	prog, spkgs := ssautil.Packages(pkgs2, ssa.GlobalDebug)
	prog.Build()
	e.prog = prog
	for i, p := range pkgs2 {
		for k, pk := range e.pkgs {
			if pk == p {
				e.spkgs[k] = spkgs[i]
			}
		}
	}
	// resolve contracts against the phase-2 packages
	for d, cf := range e.cfiles {
		g := &genPkg{pkg: e.pkgs[d], cf: cf, imports: map[string]string{}}
		for _, fc := range cf.Funcs {
			fi, err := findFunc(e.pkgs[d], fc)
			if err != nil {
				return nil, err
			}
			g.signature(fi)
			key := fc.Key()
			if fi.Lit != nil {
				key = fc.Pkg + ":" + litKey(fc)
			}
			fn := prog.FuncValue(fi.Obj)
			if fn == nil {
				return nil, fmt.Errorf("no SSA function for %s", key)
			}
			if fi.Lit != nil {
				suffix := litKey(fc)
				suffix = suffix[strings.Index(suffix, "$"):]
				for _, part := range strings.Split(strings.TrimPrefix(suffix, "$"), "$") {
					var k int
					fmt.Sscanf(part, "%d", &k)
					if k < 1 || k > len(fn.AnonFuncs) {
						return nil, fmt.Errorf("%s: no anonymous function %d", key, k)
					}
					fn = fn.AnonFuncs[k-1]
				}
			}
			e.infos[key] = fi
			e.byFn[fn] = fi
			e.fnOf[key] = fn
		}
	}
	return e, nil
}

func (e *Engine) contractOf(fn *ssa.Function) *FuncInfo { return e.byFn[fn] }

func (e *Engine) isSpec(fn *ssa.Function) bool {
	if fn.Pkg == nil {
		return false
	}
	for k, sp := range e.spkgs {
		if sp == fn.Pkg {
			if cf := e.cfiles[k]; cf != nil {
				for _, s := range cf.Specs {
					if s.Name == fn.Name() || strings.HasPrefix(s.Name, fn.Name()+"[") {
						return true
					}
				}
			}
		}
	}
	return false
}

func (e *Engine) isOpaqueSpec(fn *ssa.Function) bool {
	if fn.Pkg == nil {
		return false
	}
	for k, sp := range e.spkgs {
		if sp == fn.Pkg {
			if cf := e.cfiles[k]; cf != nil {
				for _, s := range cf.Specs {
					if s.Opaque && (s.Name == fn.Name() || strings.HasPrefix(s.Name, fn.Name()+"[")) {
						return true
					}
				}
			}
		}
	}
	return false
}

func (e *Engine) gcFunc(pkgKey, name string) *ssa.Function {
	sp := e.spkgs[pkgKey]
	if sp == nil {
		return nil
	}
	return sp.Func(name)
}

func (e *Engine) resolveInvoke(recv types.Type, method string) *ssa.Function {
	n, ok := types.Unalias(recv).(*types.Named)
	if !ok {
		return nil
	}
	impl, ok := e.implements[n.Obj().Name()]
	if !ok {
		return nil
	}
	o := n.Obj().Pkg().Scope().Lookup(impl)
	tn, ok := o.(*types.TypeName)
	if !ok {
		return nil
	}
	named := tn.Type().(*types.Named)
	for i := 0; i < named.NumMethods(); i++ {
		if named.Method(i).Name() == method {
			return e.prog.FuncValue(named.Method(i))
		}
	}
	return nil
}

// pushSubst records the type arguments of a generic instance so that layouts of
// the callee's type parameters resolve to the caller's types.
func (e *Engine) pushSubst(fn *ssa.Function) func() {
	org := fn.Origin()
	if org == nil || len(fn.TypeArgs()) == 0 {
		return func() {}
	}
	m := map[string]types.Type{}
	tps := org.TypeParams()
	for i, ta := range fn.TypeArgs() {
		if tps != nil && i < tps.Len() {
			m[tps.At(i).Obj().Name()] = ta
		}
	}
	e.subst = append(e.subst, m)
	return func() { e.subst = e.subst[:len(e.subst)-1] }
}

func (e *Engine) sizeof(t types.Type) int64 {
	return types.SizesFor("gc", "amd64").Sizeof(t)
}

// ---- lock invariants (filled in by conc2.go) -------------------------------------------

func (e *Engine) lockInvFor(lv *LVal) *LockInv {
	for _, cf := range e.cfiles {
		for _, li := range cf.LockInvs {
			if strings.HasSuffix(lv.TK, "."+li.Type) || strings.HasSuffix(lv.TK, "."+li.Type+"[]") {
				return li
			}
		}
	}
	return nil
}

// rankCheck: locks are acquired in increasing rank order (no lock-order inversion).
func (vc *VC) rankCheck(lv *LVal, li *LockInv) {
	if li == nil {
		return
	}
	r, ok := vc.eng.rankOf(li.Type)
	if !ok {
		return
	}
	for _, h := range vc.st.Held {
		hr, ok := vc.eng.rankOf(h.inv.Type)
		if ok && hr >= r {
			vc.oblige("lock:rank:"+h.inv.Type+"<"+li.Type, []string{"C08"}, "false")
		}
	}
}

// acquiresOf lists the lock-invariant types whose mutex fn may acquire, directly or through
// statically resolved callees (interface calls through the declared `implements` mapping are
// resolved by the caller's receiver type when it is known).  A syntactic over-approximation:
// a Lock/RLock call on the embedded mutex of a value of type T counts as acquiring T's lock.
func (e *Engine) acquiresOf(fn *ssa.Function, seen map[*ssa.Function]bool) []string {
	fn = origin(fn)
	if seen[fn] || fn.Blocks == nil {
		return nil
	}
	seen[fn] = true
	if c, ok := e.acqCache[fn]; ok {
		return c
	}
	set := map[string]bool{}
	for _, b := range fn.Blocks {
		for _, ins := range b.Instrs {
			var cc *ssa.CallCommon
			switch x := ins.(type) {
			case *ssa.Call:
				cc = &x.Call
			case *ssa.Defer:
				cc = &x.Call
			}
			if cc == nil {
				continue
			}
			callee := cc.StaticCallee()
			if callee == nil {
				continue
			}
			switch callee.String() {
			case "(*sync.Mutex).Lock", "(*sync.RWMutex).Lock", "(*sync.RWMutex).RLock":
				if len(cc.Args) > 0 {
					if fa, ok := cc.Args[0].(*ssa.FieldAddr); ok {
						if pt, ok := fa.X.Type().Underlying().(*types.Pointer); ok {
							if n, ok := pt.Elem().(*types.Named); ok {
								set[n.Obj().Name()] = true
							}
						}
					}
				}
			default:
				for _, t := range e.acquiresOf(callee, seen) {
					set[t] = true
				}
			}
		}
	}
	var out []string
	for t := range set {
		out = append(out, t)
	}
	sort.Strings(out)
	if e.acqCache == nil {
		e.acqCache = map[*ssa.Function][]string{}
	}
	e.acqCache[fn] = out
	return out
}

func (e *Engine) rankOf(typ string) (int, bool) {
	for _, cf := range e.cfiles {
		if r, ok := cf.Ranks[typ]; ok {
			return r, true
		}
	}
	return 0, false
}

func (vc *VC) guardLocs(li *LockInv, self SV) []Loc {
	var out []Loc
	for _, m := range li.Guards {
		v := vc.evalValueFunc(m.GoName, li.Pkg, []SV{self}, vc.st, vc.st)
		if v.Box == nil {
			vc.fail("guard %q: cannot determine location", m.Expr)
		}
		inner, t := *v.Box, v.BoxT
		if !m.All {
			lv := vc.lvalOfSV(inner, t)
			n := len(vc.eng.layoutOf(lv.Typ).L)
			out = append(out, Loc{Space: lv.Space, TK: lv.TK, Lo: lv.Leaf, Hi: lv.Leaf + n, Ref: lv.Ref, Idx: lv.Idx, Desc: m.Expr})
			continue
		}
		if m.All2 {
			mt, ok := t.Underlying().(*types.Map)
			if !ok {
				vc.fail("guard %s[*][*]: not a map of maps", m.Expr)
			}
			mi := vc.eng.mapInfoOf(mt.Elem())
			out = append(out, Loc{Space: 'M', TK: mi.Key, Ref: "*", Desc: m.Expr + "[*][*]"})
			continue
		}
		switch u := t.Underlying().(type) {
		case *types.Slice:
			tk := typeKey(u.Elem())
			vc.eng.tkTypes[tk] = u.Elem()
			vc.assume(sliceWF(inner.L[0], inner.L[1], inner.L[2], inner.L[3]))
			out = append(out, Loc{Space: 'E', TK: tk, Ref: inner.L[0], Desc: m.Expr + "[*]",
				WinLo: inner.L[1], WinLen: inner.L[3]})
		case *types.Map:
			mi := vc.eng.mapInfoOf(t)
			out = append(out, Loc{Space: 'M', TK: mi.Key, Ref: inner.L[0], Desc: m.Expr + "[*]"})
		case *types.Pointer:
			lv := vc.lvalOfSV(inner, t)
			out = append(out, Loc{Space: 'O', TK: lv.TK, Ref: lv.Ref, Desc: "*" + m.Expr})
		default:
			vc.fail("guard %s[*]: unsupported type %s", m.Expr, t)
		}
	}
	return out
}

func (vc *VC) lockAcquire(li *LockInv, lv *LVal) []Loc {
	// another goroutine may have changed the guarded state, but only to a state that
	// satisfies the invariant: havoc what the lock guards, then assume the invariant
	self := SV{L: []string{lv.Ref}}
	locs := vc.guardLocs(li, self)
	for _, l := range locs {
		vc.havocLoc(l)
	}
	// guard paths are re-read after the havoc (a guarded pointer field may have changed)
	locs = vc.guardLocs(li, self)
	g := vc.evalClause(li.GoName, li.Pkg, []SV{self}, vc.st, vc.entry)
	vc.assume(g)
	if vc.fi != nil && !vc.entryAtLock {
		if _, ok := vc.fi.C.Attrs["atomic"]; ok {
			// old() in the contract of a monitor method refers to the state at acquisition
			vc.entryAtLock = true
			vc.entry = vc.st.clone()
			// the frame of a monitor method is read in the state at acquisition too
			if vc.curFrame != nil {
				root := vc.curFrame
				for root.parent != nil {
					root = root.parent
				}
				if root.isRoot {
					vc.rootMods = vc.modLocs(vc.fi, vc.fi.C.Modifies, vc.clauseArgsFrame(root), vc.st)
				}
			}
		}
	}
	return locs
}

func (vc *VC) lockRelease(li *LockInv, lv *LVal, mode int) {
	self := SV{L: []string{lv.Ref}}
	g := vc.evalClause(li.GoName, li.Pkg, []SV{self}, vc.st, vc.entry)
	// one obligation per top-level conjunct: a failure names the part of the invariant that broke
	for i, c := range vc.conjuncts(g, 0) {
		vc.oblige(fmt.Sprintf("lockinv:%s.%d", li.Type, i+1), li.Tags, c)
	}
}

// obligeConj: one obligation per top-level conjunct (smaller queries, and a failure
// names the conjunct that broke).
func (vc *VC) obligeConj(name string, tags []string, g string) {
	cs := vc.conjuncts(g, 0)
	if len(cs) <= 1 {
		vc.oblige(name, tags, g)
		return
	}
	for i, c := range cs {
		vc.oblige(fmt.Sprintf("%s.%d", name, i+1), tags, c)
	}
}

// conjuncts splits a goal into conjuncts, looking through named Boolean definitions.
func (vc *VC) conjuncts(g string, depth int) []string {
	if t, ok := vc.boolDefs[g]; ok && depth < 8 {
		return vc.conjuncts(t, depth+1)
	}
	var out []string
	for _, c := range topConjuncts(g) {
		if c != g {
			out = append(out, vc.conjuncts(c, depth+1)...)
		} else {
			out = append(out, c)
		}
	}
	if len(out) > 24 {
		return []string{g}
	}
	return out
}

// topConjuncts flattens nested (and ...) at the top of a formula.
func topConjuncts(g string) []string {
	n := parseSx(g)
	var out []string
	var walk func(x *sx)
	walk = func(x *sx) {
		if x.atom == "" && len(x.kids) > 0 && x.kids[0].atom == "and" {
			for _, k := range x.kids[1:] {
				walk(k)
			}
			return
		}
		out = append(out, g[x.s:x.e])
	}
	if n == nil {
		return []string{g}
	}
	walk(n)
	return out
}

// ---- verification of one function ----------------------------------------------------------

type FuncResult struct {
	Key         string
	Fn          string
	Obls        []*Obl
	Err         string
	VC          *VC
	Assumptions []string
	SSAHash     string
	Trusted     string
}

func (e *Engine) verifyFunc(key string) (res *FuncResult) {
	fi := e.infos[key]
	fn := e.fnOf[key]
	res = &FuncResult{Key: key, Fn: fn.String()}
	if t, ok := fi.C.Attrs["trusted"]; ok {
		res.Trusted = t
		return res
	}
	if _, ok := fi.C.Attrs["asm"]; ok {
		return e.verifyAsm(key)
	}
	vc := &VC{eng: e, root: fn, fi: fi, heapSort: map[string]string{}, declared: map[string]bool{}, strLits: map[string]string{},
		oblNames: map[string]int{}, uf: map[string]bool{}}
	res.VC = vc
	defer func() {
		if r := recover(); r != nil {
			if ve, ok := r.(vcError); ok {
				res.Err = ve.msg
				res.Obls = vc.obls
				return
			}
			panic(r)
		}
	}()
	if fn.Blocks == nil {
		vc.fail("function %s has no Go body", fn)
	}
	vc.decls = append(vc.decls, "(declare-const alloc0 Int)", "(assert (>= alloc0 0))")
	vc.entryAlloc = "alloc0"
	st := &State{Cond: "true", Heap: map[string]string{}, Alloc: "alloc0", Locks: map[string]int{}, Ghost: map[string]string{}}
	vc.st = st
	vc.entry = &State{Cond: "true", Heap: map[string]string{}, Alloc: "alloc0", Locks: map[string]int{}, Ghost: map[string]string{}}
	// parameters
	var args []SV
	for _, p := range fn.Params {
		ls := e.layoutOf(p.Type()).L
		v := SV{}
		for _, li := range ls {
			n := quoteSym("in_" + p.Name() + li.Path)
			vc.decls = append(vc.decls, fmt.Sprintf("(declare-const %s %s)", n, li.Sort))
			vc.inputs = append(vc.inputs, inputVar{Name: n, Sort: li.Sort, Desc: p.Name() + li.Path})
			v.L = append(v.L, n)
		}
		vc.typeFacts(p.Type(), v)
		args = append(args, v)
	}
	var bind []SV
	for _, fv := range fn.FreeVars {
		// captured variable: a cell that exists before the call
		n := quoteSym("in_free_" + fv.Name())
		vc.decls = append(vc.decls, fmt.Sprintf("(declare-const %s Int)", n), fmt.Sprintf("(assert (and (< 0 %s) (<= %s alloc0)))", n, n))
		bind = append(bind, SV{L: []string{n}})
	}
	if _, nf := fi.C.Attrs["noframe"]; nf {
		vc.rootModsAll = true
	}
	vc.revealed = map[string]bool{}
	for _, r := range strings.Split(fi.C.Attrs["reveal"], ",") {
		if r = strings.TrimSpace(r); r != "" {
			vc.revealed[r] = true
		}
	}
	vc.hidden = map[string]bool{}
	for _, r := range strings.Split(fi.C.Attrs["hide"], ",") {
		if r = strings.TrimSpace(r); r != "" {
			vc.hidden[r] = true
		}
	}
	for _, u := range strings.Split(fi.C.Attrs["uses"], ",") {
		if u = strings.TrimSpace(u); u != "" {
			vc.useLemma(u)
		}
	}
	fr0 := &Frame{fn: fn, args: args, bind: bind, fi: fi}
	cargs := vc.clauseArgsFrame(fr0)
	for _, rq := range fi.C.Requires {
		g := vc.evalClause(rq.GoName, fi.C.Pkg, cargs, vc.st, vc.entry)
		vc.assume(g)
	}
	// vacuity: the precondition must be satisfiable
	vc.obls = append(vc.obls, &Obl{Name: fn.String() + "#vacuity:requires", Kind: "sat", Prefix: len(vc.lines), Guard: "true", Goal: "false", Func: fn.String()})
	vc.rootMods = vc.modLocs(fi, fi.C.Modifies, cargs, vc.st)
	results := vc.execFunc(fn, args, bind, fi, true, nil)
	_ = results
	res.Obls = vc.obls
	res.Assumptions = vc.assumptions
	return res
}

func (vc *VC) script(o *Obl, withModel bool) string {
	var b strings.Builder
	b.WriteString("(set-option :produce-models true)\n(set-logic ALL)\n")
	var ss []string
	for s := range vc.eng.sorts {
		ss = append(ss, s)
	}
	sort.Strings(ss)
	for _, s := range ss {
		fmt.Fprintf(&b, "(declare-sort %s 0)\n", s)
	}
	for _, d := range vc.decls {
		b.WriteString(d)
		b.WriteByte('\n')
	}
	for _, l := range vc.lines[:o.Prefix] {
		b.WriteString(l)
		b.WriteByte('\n')
	}
	fmt.Fprintf(&b, "(assert %s)\n", o.Guard)
	if o.Kind == "assert" {
		fmt.Fprintf(&b, "(assert (not %s))\n", o.Goal)
	}
	b.WriteString("(check-sat)\n")
	if withModel && len(vc.inputs) > 0 {
		b.WriteString("(get-value (")
		for _, in := range vc.inputs {
			b.WriteString(in.Name + " ")
		}
		b.WriteString("))\n")
	}
	return b.String()
}

func (e *Engine) findLemma(name string) *Lemma {
	for _, cf := range e.cfiles {
		for _, l := range cf.Lemmas {
			if l.Name == name {
				return l
			}
		}
	}
	return nil
}

// useLemma assumes a (separately proved) lemma as a quantified fact.
func (vc *VC) useLemma(name string) {
	l := vc.eng.findLemma(name)
	if l == nil {
		vc.fail("unknown lemma %q", name)
	}
	fn := vc.eng.gcFunc(l.Pkg, l.GoName)
	if fn == nil {
		vc.fail("lemma %s has no generated function", name)
	}
	var binders, vars []string
	var args []SV
	for _, p := range fn.Params {
		v := SV{}
		for _, li := range vc.eng.layoutOf(p.Type()).L {
			vc.n++
			nm := fmt.Sprintf("l!%d", vc.n)
			binders = append(binders, "("+nm+" "+li.Sort+")")
			vars = append(vars, nm)
			v.L = append(v.L, nm)
		}
		args = append(args, v)
	}
	rec := &heapRec{}
	savedSt, savedRec := vc.st, vc.rec
	vc.st = &State{Cond: "true", Heap: map[string]string{}, Alloc: "alloc0", Locks: map[string]int{}, Ghost: map[string]string{}}
	vc.rec = rec
	vc.pure++
	vc.inline++
	vc.binder++
	body := vc.execFunc(fn, args, nil, nil, false, nil)
	vc.binder--
	vc.pure--
	vc.inline--
	vc.st, vc.rec = savedSt, savedRec
	if len(rec.names) > 0 {
		vc.fail("lemma %s reads the heap (%v); only value-level lemmas can be used", name, rec.names)
	}
	if len(binders) == 0 {
		vc.decls = append(vc.decls, "(assert "+body[0].L[0]+")")
	} else {
		vc.decls = append(vc.decls, "(assert "+vc.mkQuant("forall", binders, vars, body[0].L[0])+")")
	}
	vc.usedLemmas = append(vc.usedLemmas, l)
	vc.noteAssumption("uses lemma " + name + " (proved as its own obligation)")
}

// verifyLemma proves a lemma: a closed formula over specification functions.
func (e *Engine) verifyLemma(l *Lemma) (res *FuncResult) {
	fn := e.gcFunc(l.Pkg, l.GoName)
	res = &FuncResult{Key: l.Pkg + ":lemma:" + l.Name, Fn: "lemma " + l.Name}
	vc := &VC{eng: e, root: fn, heapSort: map[string]string{}, declared: map[string]bool{}, strLits: map[string]string{},
		oblNames: map[string]int{}, uf: map[string]bool{}, revealed: map[string]bool{}}
	res.VC = vc
	defer func() {
		if r := recover(); r != nil {
			if ve, ok := r.(vcError); ok {
				res.Err = ve.msg
				res.Obls = vc.obls
				return
			}
			panic(r)
		}
	}()
	if fn == nil {
		vc.fail("lemma %s has no generated function", l.Name)
	}
	for _, r := range l.Reveal {
		vc.revealed[r] = true
	}
	vc.decls = append(vc.decls, "(declare-const alloc0 Int)", "(assert (>= alloc0 0))")
	vc.entryAlloc = "alloc0"
	vc.st = &State{Cond: "true", Heap: map[string]string{}, Alloc: "alloc0", Locks: map[string]int{}, Ghost: map[string]string{}}
	vc.entry = vc.st.clone()
	for _, u := range l.Uses {
		vc.useLemma(u)
	}
	var args []SV
	for _, p := range fn.Params {
		v := SV{}
		for _, li := range e.layoutOf(p.Type()).L {
			n := quoteSym("in_" + p.Name() + li.Path)
			vc.decls = append(vc.decls, fmt.Sprintf("(declare-const %s %s)", n, li.Sort))
			vc.inputs = append(vc.inputs, inputVar{Name: n, Sort: li.Sort, Desc: p.Name() + li.Path})
			v.L = append(v.L, n)
		}
		vc.typeFacts(p.Type(), v)
		args = append(args, v)
	}
	g := vc.evalClause(l.GoName, l.Pkg, args, vc.st, vc.entry)
	o := vc.oblige("lemma", l.Tags, g)
	if o != nil {
		o.Name = "lemma " + l.Pkg + ":" + l.Name
	}
	res.Obls = vc.obls
	res.Assumptions = vc.assumptions
	return res
}
