package main

import (
	"fmt"
	"go/ast"
	"go/token"
	"go/types"
	"os"

	"golang.org/x/tools/go/ssa"
)

// valueAt finds the value of source variable `name` at the entry of block blk
// (at = nil) or just before instruction `at` of blk.
func (vc *VC) valueAt(fr *Frame, blk *ssa.BasicBlock, at ssa.Instruction, name string, phiOverride map[*ssa.Phi]SV) SV {
	for _, ins := range blk.Instrs {
		phi, ok := ins.(*ssa.Phi)
		if !ok {
			break
		}
		if phi.Comment == name {
			if v, ok := phiOverride[phi]; ok {
				return v
			}
			return vc.val(fr, phi)
		}
	}
	if name == "rangeindex" {
		vc.fail("no range index at this point of %s", fr.fn.Name())
	}
	// address-taken variable: an Alloc with that comment
	var allocs []*ssa.Alloc
	for _, b := range fr.fn.Blocks {
		for _, ins := range b.Instrs {
			if a, ok := ins.(*ssa.Alloc); ok && a.Comment == name {
				allocs = append(allocs, a)
			}
		}
	}
	if len(allocs) == 1 {
		if sv, ok := fr.vals[allocs[0]]; ok {
			return vc.load(vc.lvalOfSV(sv, allocs[0].Type()))
		}
	}
	// free variable of a closure
	for i, fv := range fr.fn.FreeVars {
		if fv.Name() == name {
			return vc.load(vc.lvalOfSV(fr.bind[i], fv.Type()))
		}
	}
	// the variable's object, to tell apart equally named variables of different scopes
	var target types.Object
	if fr.fi != nil {
		pos := token.NoPos
		if at != nil {
			pos = at.Pos()
		}
		if pos == token.NoPos {
			for _, ins := range blk.Instrs {
				if ins.Pos() != token.NoPos {
					pos = ins.Pos()
					break
				}
			}
		}
		if v := localVar(fr.fi, name, pos); v != nil {
			target = v
		}
	}
	// a debug ref binds the variable to a value at its own location; the binding that
	// reaches the query point is the one whose location is its closest dominator
	locBefore := func(d *ssa.DebugRef) bool {
		db := d.Block()
		if db == blk {
			if at == nil {
				return false
			}
			for _, ins := range blk.Instrs {
				if ins == at {
					return false
				}
				if ins == ssa.Instruction(d) {
					return true
				}
			}
			return false
		}
		return db.Dominates(blk)
	}
	var best ssa.Value
	var bestRef *ssa.DebugRef
	for _, b := range fr.fn.Blocks {
		for _, ins := range b.Instrs {
			d, ok := ins.(*ssa.DebugRef)
			if !ok || d.IsAddr {
				continue
			}
			id, ok := d.Expr.(*ast.Ident)
			if !ok || id.Name != name {
				continue
			}
			if target != nil && fr.fi != nil {
				if o := fr.fi.Pkg.TypesInfo.ObjectOf(id); o != nil && o != target {
					continue
				}
			}
			if !locBefore(d) {
				continue
			}
			if bestRef == nil {
				best, bestRef = d.X, d
				continue
			}
			if bestRef.Block() != d.Block() {
				if bestRef.Block().Dominates(d.Block()) {
					best, bestRef = d.X, d
				}
				continue
			}
			// same block: the later one wins
			for _, q := range d.Block().Instrs {
				if q == ssa.Instruction(bestRef) {
					best, bestRef = d.X, d
					break
				}
				if q == ssa.Instruction(d) {
					break
				}
			}
		}
	}
	// a phi for this variable at a block that dominates the point and is dominated by
	// the chosen binding is newer than the binding
	for _, b := range fr.fn.Blocks {
		if b == blk || !b.Dominates(blk) {
			continue
		}
		for _, ins := range b.Instrs {
			phi, ok := ins.(*ssa.Phi)
			if !ok {
				break
			}
			if phi.Comment != name {
				continue
			}
			if bestRef == nil || (bestRef.Block() != b && bestRef.Block().Dominates(b)) {
				best = phi
				bestRef = nil
				// later candidates must now be dominated by b: approximate by stopping at the deepest such phi
			}
		}
	}
	if best != nil {
		if os.Getenv("GOVC_DEBUG") != "" {
			fmt.Fprintf(os.Stderr, "valueAt %s in %s block %d: %s = %s\n", name, fr.fn.Name(), blk.Index, best.Name(), best)
		}
		if phi, ok := best.(*ssa.Phi); ok {
			if v, ok := phiOverride[phi]; ok {
				return v
			}
		}
		return vc.val(fr, best)
	}
	// parameters (never reassigned, never referenced through a debug ref)
	for i, p := range fr.fn.Params {
		if p.Name() == name {
			return fr.args[i]
		}
	}
	vc.fail("%s: cannot find the value of variable %q at this point (it must be live there)", fr.fn.Name(), name)
	return SV{}
}

func (vc *VC) localValue(fr *Frame, li *loopInfo, name string, phiOverride map[*ssa.Phi]SV) SV {
	if name == "rangecount" {
		it := fr.iters[li.rangeIt]
		if li.rangeIt == nil || it == nil {
			vc.fail("rangecount: loop %d of %s is not a range loop over a map", li.ord, fr.fn.Name())
		}
		return scalar(vc.mcard(it.mi, it.visited))
	}
	return vc.valueAt(fr, li.header, nil, name, phiOverride)
}

func (vc *VC) clauseArgsFrame(fr *Frame) []SV {
	var out []SV
	// captured variables first (FreeDecl), then parameters
	if fr.fi != nil && fr.fi.Lit != nil {
		for _, n := range fr.fi.FreeNames {
			found := false
			for i, fv := range fr.fn.FreeVars {
				if fv.Name() == n {
					out = append(out, vc.load(vc.lvalOfSV(fr.bind[i], fv.Type())))
					found = true
				}
			}
			if !found {
				vc.fail("captured variable %s not found among free variables of %s", n, fr.fn)
			}
		}
	}
	return append(out, fr.args...)
}

func (vc *VC) loopClauseArgs(fr *Frame, li *loopInfo, c *Clause, phiOverride map[*ssa.Phi]SV) []SV {
	args := vc.clauseArgsFrame(fr)
	for _, n := range c.Locals {
		args = append(args, vc.localValue(fr, li, n, phiOverride))
	}
	return args
}

func clauseLabel(c *Clause, i int) string {
	if c.Label != "" {
		return c.Label
	}
	return fmt.Sprint(i + 1)
}

func (vc *VC) loopHead(fr *Frame, li *loopInfo, b *ssa.BasicBlock) {
	if vc.pure > 0 {
		vc.fail("loop inside a specification function %s", fr.fn)
	}
	fi := fr.fi
	if fi == nil {
		vc.fail("loop in %s, which is reached by inlining: the function needs its own contract", fr.fn)
	}
	fc := fi.C
	invs := fc.LoopInv[li.ord]
	pre := vc.st.clone()
	// the state on arrival at the loop is readable in this function's clauses as oldat("loop<k>", e)
	if vc.marks == nil {
		vc.marks = map[string]*State{}
	}
	vc.marks[fmt.Sprintf("loop%d", li.ord)] = pre
	// 1. the invariant holds on entry
	for i, c := range invs {
		g := vc.evalClause(c.GoName, fc.Pkg, vc.loopClauseArgs(fr, li, c, nil), vc.st, vc.entry)
		vc.obligeConj(fmt.Sprintf("loop%d.init:%s", li.ord, clauseLabel(c, i)), c.Tags, g)
	}
	// 2. havoc what the loop may change
	st := vc.st.clone()
	vc.st = st
	mods := fc.LoopMod[li.ord]
	var locs []Loc
	if mods != nil {
		for _, m := range mods {
			fn := vc.eng.gcFunc(fc.Pkg, m.GoName)
			base := vc.clauseArgsFrame(fr)
			// locals used by the item
			ids, _ := freeIdents(rewriteExpr(m.Expr))
			args := base
			for _, p := range fn.Params[len(base):] {
				_ = ids
				args = append(args, vc.localValue(fr, li, p.Name(), nil))
			}
			locs = append(locs, vc.modLocs(fi, []*ModItem{m}, args, pre)...)
		}
	} else if fr.isRoot {
		if vc.rootModsAll {
			vc.fail("loop %d of %s: a function without frame checking (noframe) must declare `loop %d modifies ...`", li.ord, fr.fn.Name(), li.ord)
		}
		locs = append(locs, vc.rootMods...)
	} else {
		locs = vc.modLocs(fi, fc.Modifies, vc.clauseArgsFrame(fr), pre)
	}
	for _, l := range locs {
		vc.havocLoc(l)
	}
	// local cells written in the loop
	for _, a := range vc.cellsWrittenIn(fr, li) {
		if sv, ok := fr.vals[a]; ok {
			lv := vc.lvalOfSV(sv, a.Type())
			vc.havocLoc(Loc{Space: 'O', TK: lv.TK, Ref: lv.Ref})
		}
	}
	na := vc.fresh("Int", "alloc")
	vc.assume("(>= " + na + " " + vc.st.Alloc + ")")
	vc.st.Alloc = na
	for _, ins := range b.Instrs {
		phi, ok := ins.(*ssa.Phi)
		if !ok {
			break
		}
		fr.vals[phi] = vc.freshValue(phi.Type(), "loop_"+phi.Comment)
		if phi.Comment == "rangeindex" {
			// go/ssa's lowering of `for i := range s`: the hidden index starts at -1 and is
			// incremented only while index+1 < len, so it stays within [-1, len)
			vc.assume("(bvsle (bvneg (_ bv1 64)) " + fr.vals[phi].L[0] + ")")
			// ... and below the bound it is compared with (it is -1 or a value that passed the test)
			for _, i2 := range b.Instrs {
				add, ok := i2.(*ssa.BinOp)
				if !ok || add.Op != token.ADD || add.X != phi {
					continue
				}
				for _, i3 := range b.Instrs {
					if lt, ok := i3.(*ssa.BinOp); ok && lt.Op == token.LSS && lt.X == add {
						if bound, ok := fr.vals[lt.Y]; ok {
							vc.assume("(or (= " + fr.vals[phi].L[0] + " (bvneg (_ bv1 64))) (bvslt " + fr.vals[phi].L[0] + " " + bound.L[0] + "))")
						} else if c, ok := lt.Y.(*ssa.Const); ok {
							vc.assume("(bvslt " + fr.vals[phi].L[0] + " " + vc.constValue(c).L[0] + ")")
						}
					}
				}
			}
		}
	}
	if li.rangeIt != nil {
		vc.rangeHavoc(fr, li)
	}
	// 3. assume the invariant for an arbitrary iteration
	for _, c := range invs {
		g := vc.evalClause(c.GoName, fc.Pkg, vc.loopClauseArgs(fr, li, c, nil), vc.st, vc.entry)
		vc.assume(g)
	}
	if d := fc.LoopDec[li.ord]; d != nil {
		v := vc.evalValueFunc(d.GoName, fc.Pkg, vc.loopClauseArgs(fr, li, d, nil), vc.st, vc.entry)
		li.decAt = vc.def(bvSort(64), v.L[0])
	}
	li.headSt = vc.st.clone()
}

func (vc *VC) loopBack(fr *Frame, li *loopInfo, from *ssa.BasicBlock) {
	fc := fr.fi.C
	over := map[*ssa.Phi]SV{}
	var idx int
	for i, p := range li.header.Preds {
		if p == from {
			idx = i
		}
	}
	for _, ins := range li.header.Instrs {
		phi, ok := ins.(*ssa.Phi)
		if !ok {
			break
		}
		over[phi] = vc.val(fr, phi.Edges[idx])
	}
	vc.smoke(fmt.Sprintf("loop%d.body", li.ord))
	for i, c := range fc.LoopInv[li.ord] {
		g := vc.evalClause(c.GoName, fc.Pkg, vc.loopClauseArgs(fr, li, c, over), vc.st, vc.entry)
		vc.obligeConj(fmt.Sprintf("loop%d.preserve:%s", li.ord, clauseLabel(c, i)), c.Tags, g)
	}
	if d := fc.LoopDec[li.ord]; d != nil {
		v := vc.evalValueFunc(d.GoName, fc.Pkg, vc.loopClauseArgs(fr, li, d, over), vc.st, vc.entry)
		vc.oblige(fmt.Sprintf("loop%d.decreases", li.ord), []string{"aux"},
			and("(bvsle (_ bv0 64) "+v.L[0]+")", "(bvslt "+v.L[0]+" "+li.decAt+")"))
	}
	for k, m := range li.headSt.Locks {
		if vc.st.Locks[k] != m {
			vc.oblige(fmt.Sprintf("loop%d.locks", li.ord), []string{"C08"}, "false")
		}
	}
}

// cellsWrittenIn lists the local variables (Allocs made before the loop) that
// are stored to inside the loop, directly or through closures called there.
func (vc *VC) cellsWrittenIn(fr *Frame, li *loopInfo) []*ssa.Alloc {
	seen := map[*ssa.Alloc]bool{}
	var out []*ssa.Alloc
	var rootOf func(v ssa.Value) ssa.Value
	rootOf = func(v ssa.Value) ssa.Value {
		switch x := v.(type) {
		case *ssa.FieldAddr:
			return rootOf(x.X)
		case *ssa.IndexAddr:
			if _, ok := x.X.Type().Underlying().(*types.Pointer); ok {
				return rootOf(x.X)
			}
		}
		return v
	}
	add := func(v ssa.Value) {
		if a, ok := rootOf(v).(*ssa.Alloc); ok && !seen[a] {
			if !li.blocks[a.Block()] {
				seen[a] = true
				out = append(out, a)
			}
		}
	}
	var scanFn func(fn *ssa.Function, binds []ssa.Value, depth int)
	scanFn = func(fn *ssa.Function, binds []ssa.Value, depth int) {
		if depth > 4 || fn == nil {
			return
		}
		for _, b := range fn.Blocks {
			for _, ins := range b.Instrs {
				if s, ok := ins.(*ssa.Store); ok {
					r := rootOf(s.Addr)
					if fv, ok := r.(*ssa.FreeVar); ok {
						for i, f := range fn.FreeVars {
							if f == fv && i < len(binds) {
								add(binds[i])
							}
						}
					}
				}
			}
		}
	}
	for b := range li.blocks {
		for _, ins := range b.Instrs {
			switch x := ins.(type) {
			case *ssa.Store:
				add(x.Addr)
			case *ssa.Call:
				if mc, ok := x.Call.Value.(*ssa.MakeClosure); ok {
					scanFn(mc.Fn.(*ssa.Function), mc.Bindings, 0)
				}
				// arguments that are addresses of locals may be written by the callee,
				// unless the callee's contract declares that it modifies nothing
				if sc := x.Call.StaticCallee(); sc != nil {
					if fi := vc.eng.contractOf(origin(sc)); fi != nil && len(fi.C.Modifies) == 0 {
						continue
					}
				}
				for _, a := range x.Call.Args {
					if _, ok := a.Type().Underlying().(*types.Pointer); ok {
						add(a)
					}
				}
			}
		}
	}
	return out
}
