package main

import (
	"fmt"
	"go/constant"
	"go/token"
	"go/types"
	"strings"

	"golang.org/x/tools/go/ssa"
)

func origin(fn *ssa.Function) *ssa.Function {
	if fn == nil {
		return nil
	}
	if o := fn.Origin(); o != nil {
		return o
	}
	return fn
}

func (vc *VC) call(fr *Frame, c *ssa.CallCommon, instr ssa.Value, pos token.Pos) SV {
	if sc := c.StaticCallee(); sc != nil && origin(sc).Name() == "gcOld" {
		return vc.evalOld(fr, c.Args[0])
	}
	if sc := c.StaticCallee(); sc != nil && origin(sc).Name() == "gcOldAt" {
		lab := ""
		if k, ok := c.Args[0].(*ssa.Const); ok && k.Value != nil {
			lab = constant.StringVal(k.Value)
		}
		return vc.evalOldAt(fr, c.Args[1], lab)
	}
	var args []SV
	for _, a := range c.Args {
		args = append(args, vc.val(fr, a))
	}
	var fnv *SV
	if !c.IsInvoke() {
		v := vc.val(fr, c.Value)
		fnv = &v
	}
	return vc.callWith(fr, c, args, fnv, instr, pos)
}

// packResults turns a list of result values into one SV (tuple layout).
func packResults(rs []SV) SV {
	if len(rs) == 1 {
		return rs[0]
	}
	out := SV{}
	for _, r := range rs {
		out.L = append(out.L, r.L...)
	}
	out.Bind = rs
	return out
}

func (vc *VC) callWith(fr *Frame, c *ssa.CallCommon, args []SV, fnv *SV, instr ssa.Value, pos token.Pos) SV {
	if b, ok := c.Value.(*ssa.Builtin); ok && !c.IsInvoke() {
		return vc.builtin(fr, b, c, args)
	}
	var callee *ssa.Function
	var bind []SV
	if c.IsInvoke() {
		recv := vc.val(fr, c.Value)
		callee = vc.eng.resolveInvoke(c.Value.Type(), c.Method.Name())
		if callee == nil {
			vc.fail("interface call %s.%s cannot be resolved to a single implementation (declare `implements`)", c.Value.Type(), c.Method.Name())
		}
		args = append([]SV{{L: []string{recv.L[0]}}}, args...)
	} else if sc := c.StaticCallee(); sc != nil {
		callee = sc
		if fnv != nil {
			bind = fnv.Bind
		}
	} else if fnv != nil && fnv.Fn != nil {
		callee = fnv.Fn
		bind = fnv.Bind
	}
	if callee == nil {
		return vc.callback(fr, c, args, fnv)
	}
	return packResults(vc.callFunc(fr, callee, args, bind, pos))
}

// callFunc applies intrinsic model, contract, or inlining, in that order.
func (vc *VC) callFunc(fr *Frame, callee *ssa.Function, args []SV, bind []SV, pos token.Pos) []SV {
	org := origin(callee)
	name := org.String()
	if vc.eng.isOpaqueSpec(org) || (vc.hidden[org.Name()] && vc.eng.isSpec(org)) {
		return vc.applyOpaque(org, args)
	}
	if r, ok := vc.gcIntrinsic(fr, callee, args); ok {
		return r
	}
	if r, ok := vc.stdIntrinsic(fr, org, name, args, pos); ok {
		return r
	}
	if fi := vc.eng.contractOf(org); fi != nil && vc.pure == 0 {
		if _, inl := fi.C.Attrs["inline"]; !inl {
			return vc.applyContract(fr, org, fi, args, bind, pos)
		}
	}
	if org.Blocks == nil {
		vc.fail("call of external function %s without model or trusted contract", name)
	}
	pop := vc.eng.pushSubst(callee)
	defer pop()
	return vc.execFunc(org, args, bind, nil, false, nil)
}

// evalClause evaluates a generated clause function purely in state cur with
// old() referring to state old.
func (vc *VC) evalClause(goName string, pkgKey string, args []SV, cur, old *State) string {
	fn := vc.eng.gcFunc(pkgKey, goName)
	if fn == nil {
		vc.fail("internal: generated clause function %s missing", goName)
	}
	saved := vc.st
	vc.st = &State{Cond: "true", Heap: cur.Heap, Alloc: cur.Alloc, Locks: cur.Locks, Ghost: cur.Ghost}
	vc.pure++
	vc.inline++
	defer func() { vc.pure--; vc.inline--; vc.st = saved }()
	if len(args) != len(fn.Params) {
		vc.fail("internal: clause %s expects %d arguments, got %d", goName, len(fn.Params), len(args))
	}
	r := vc.execFunc(fn, args, nil, nil, false, old)
	return r[0].L[0]
}

func (vc *VC) evalValueFunc(goName, pkgKey string, args []SV, cur, old *State) SV {
	fn := vc.eng.gcFunc(pkgKey, goName)
	if fn == nil {
		vc.fail("internal: generated function %s missing", goName)
	}
	saved := vc.st
	vc.st = &State{Cond: "true", Heap: cur.Heap, Alloc: cur.Alloc, Locks: cur.Locks, Ghost: cur.Ghost}
	vc.pure++
	vc.inline++
	defer func() { vc.pure--; vc.inline--; vc.st = saved }()
	r := vc.execFunc(fn, args, nil, nil, false, old)
	return r[0]
}

// modLocs evaluates modifies items to location sets.
func (vc *VC) modLocs(fi *FuncInfo, items []*ModItem, args []SV, st *State) []Loc {
	var out []Loc
	for _, m := range items {
		fn := vc.eng.gcFunc(fi.C.Pkg, m.GoName)
		v := vc.evalValueFunc(m.GoName, fi.C.Pkg, args[:len(fn.Params)], st, st)
		if v.Box == nil {
			vc.fail("modifies item %q: cannot determine location", m.Expr)
		}
		inner := *v.Box
		t := v.BoxT
		if m.AllKind {
			if _, ok := t.Underlying().(*types.Map); !ok {
				vc.fail("modifies allmaps(%s): not a map", m.Expr)
			}
			mi := vc.eng.mapInfoOf(t)
			out = append(out, Loc{Space: 'M', TK: mi.Key, Ref: "*", Desc: "allmaps(" + m.Expr + ")"})
			continue
		}
		if m.All2 {
			if st2, ok := t.Underlying().(*types.Slice); ok {
				// a slice of slices: the contents of any array of the inner element type
				if in, ok := st2.Elem().Underlying().(*types.Slice); ok {
					tk := typeKey(in.Elem())
					vc.eng.tkTypes[tk] = in.Elem()
					out = append(out, Loc{Space: 'E', TK: tk, Ref: "*", Desc: m.Expr + "[*][*]"})
					continue
				}
			}
			mt, ok := t.Underlying().(*types.Map)
			if !ok {
				vc.fail("modifies %s[*][*]: not a map of maps", m.Expr)
			}
			mi := vc.eng.mapInfoOf(mt.Elem())
			out = append(out, Loc{Space: 'M', TK: mi.Key, Ref: "*", Desc: m.Expr + "[*][*]"})
			continue
		}
		if !m.All {
			lv := vc.lvalOfSV(inner, t)
			n := len(vc.eng.layoutOf(lv.Typ).L)
			out = append(out, Loc{Space: lv.Space, TK: lv.TK, Lo: lv.Leaf, Hi: lv.Leaf + n, Ref: lv.Ref, Idx: lv.Idx, Desc: m.Expr})
			continue
		}
		switch u := t.Underlying().(type) {
		case *types.Slice:
			tk := typeKey(u.Elem())
			vc.eng.tkTypes[tk] = u.Elem()
			vc.assume(sliceWF(inner.L[0], inner.L[1], inner.L[2], inner.L[3]))
			out = append(out, Loc{Space: 'E', TK: tk, Ref: inner.L[0], Desc: m.Expr + "[*]",
				WinLo: inner.L[1], WinLen: inner.L[3]})
		case *types.Map:
			mi := vc.eng.mapInfoOf(t)
			out = append(out, Loc{Space: 'M', TK: mi.Key, Ref: inner.L[0], Desc: m.Expr + "[*]"})
		case *types.Pointer:
			lv := vc.lvalOfSV(inner, t)
			out = append(out, Loc{Space: 'O', TK: lv.TK, Ref: lv.Ref, Desc: "*" + m.Expr})
		case *types.Chan:
			tk := typeKey(u.Elem())
			vc.eng.tkTypes[tk] = u.Elem()
			out = append(out, Loc{Space: 'C', TK: tk, Ref: inner.L[0], Desc: m.Expr})
		case *types.Signature, *types.Interface:
			// gcCallbacks(f): the call counters of function value f
			ref := inner.L[0]
			if inner.Box != nil {
				ref = inner.Box.L[0]
			}
			bt := t
			if inner.Box != nil {
				bt = inner.BoxT
			}
			out = append(out, Loc{Space: 'B', TK: typeKey(bt), Ref: ref, Desc: m.Expr})
		default:
			vc.fail("modifies %s[*]: unsupported type %s", m.Expr, t)
		}
	}
	return out
}

func (vc *VC) applyContract(fr *Frame, callee *ssa.Function, fi *FuncInfo, args []SV, bind []SV, pos token.Pos) []SV {
	cname := shortFn(callee)
	if vc.usedContracts == nil {
		vc.usedContracts = map[string]bool{}
	}
	for k, f := range vc.eng.infos {
		if f == fi {
			vc.usedContracts[k] = true
		}
	}
	// lock order across the call: every lock the callee may acquire (statically, through its
	// own callees too) must rank above every lock held here
	if vc.pure == 0 && len(vc.st.Held) > 0 {
		for _, lt := range vc.eng.acquiresOf(callee, map[*ssa.Function]bool{}) {
			r, ok := vc.eng.rankOf(lt)
			if !ok {
				continue
			}
			for _, h := range vc.st.Held {
				if hr, ok := vc.eng.rankOf(h.inv.Type); ok && hr >= r {
					vc.oblige("lock:rank:"+h.inv.Type+"<"+lt+":via:"+cname, []string{"C08"}, "false")
				}
			}
		}
	}
	cargs := append(append([]SV{}, bind...), args...)
	if callee.Signature.Variadic() {
		// nothing special: the variadic parameter is a slice value
	}
	for _, h := range strings.Split(fi.C.Attrs["holds"], ";") {
		if h = strings.TrimSpace(h); h == "" || vc.holdsAttr(h) {
			continue
		}
		held := false
		for _, hl := range vc.st.Held {
			if hl.inv.Type == h {
				held = true
			}
		}
		if !held {
			vc.oblige("call.holds:"+cname+":"+h, []string{"C08"}, "false")
		}
	}
	// interference: a function verified with `yields` runs among other goroutines, so
	// before each atomic step they may have changed whatever that step's lock guards
	if rfi := vc.fi; rfi != nil {
		if _, y := rfi.C.Attrs["yields"]; y {
			vc.yieldBefore(fi, cargs, cname)
		}
	}
	pre := vc.st.clone()
	for i, rq := range fi.C.Requires {
		g := vc.evalClause(rq.GoName, fi.C.Pkg, cargs, pre, pre)
		label := rq.Label
		if label == "" {
			label = fmt.Sprint(i + 1)
		}
		vc.oblige("call.requires:"+cname+":"+label, rq.Tags, g)
	}
	// the callee may panic under its panics_if conditions: the caller must exclude them
	for i, pc := range fi.C.PanicsIf {
		g := vc.evalClause(pc.GoName, fi.C.Pkg, cargs, pre, pre)
		allowed := "false"
		if rfi := vc.fi; rfi != nil && len(rfi.C.PanicsIf) > 0 {
			root := vc.curFrame
			for root != nil && root.parent != nil {
				root = root.parent
			}
			if root != nil && root.isRoot {
				var alts []string
				for _, rp := range rfi.C.PanicsIf {
					alts = append(alts, vc.evalClause(rp.GoName, rfi.C.Pkg, vc.clauseArgsFrame(root), vc.entry, vc.entry))
				}
				allowed = or(alts...)
			}
		}
		vc.oblige("call.nopanic:"+cname+":"+clauseLabel(pc, i), pc.Tags, or(not(g), allowed))
		// past this point the callee did not panic
		vc.assume(not(g))
	}
	// frame
	locs := vc.modLocs(fi, fi.C.Modifies, cargs, pre)
	for _, l := range locs {
		vc.frameCheck(l, "call:"+cname)
	}
	for _, l := range locs {
		vc.havocLoc(l)
	}
	if _, ok := fi.C.Attrs["allocates"]; ok || true {
		// the callee may allocate: the watermark moves up
		na := vc.fresh("Int", "alloc")
		vc.assume("(>= " + na + " " + vc.st.Alloc + ")")
		vc.st.Alloc = na
	}
	// results
	var results []SV
	res := callee.Signature.Results()
	for i := 0; i < res.Len(); i++ {
		results = append(results, vc.freshValue(res.At(i).Type(), "r_"+callee.Name()))
	}
	post := vc.st
	eargs := append(append([]SV{}, cargs...), results...)
	for _, en := range fi.C.Ensures {
		if len(en.Locals) > 0 {
			continue // speaks about the callee's local variables: not usable at a call site
		}
		g := vc.evalClause(en.GoName, fi.C.Pkg, eargs, post, pre)
		vc.assume(g)
	}
	for _, en := range fi.C.Assumes {
		g := vc.evalClause(en.GoName, fi.C.Pkg, eargs, post, pre)
		vc.assume(g)
		vc.noteAssumption("assumed postcondition of " + cname + ": " + en.Expr)
	}
	vc.lockEffects(fi, cargs)
	return results
}

func shortFn(fn *ssa.Function) string {
	s := fn.String()
	s = strings.ReplaceAll(s, "github.com/dgraph-io/ristretto/v2/", "")
	s = strings.ReplaceAll(s, "github.com/dgraph-io/ristretto/v2", "ristretto")
	return s
}

// callback models a call through a function value whose target is unknown: a
// user callback.  It is an uninterpreted function of its arguments and does not
// touch the heap (listed assumption: callbacks do not re-enter the cache).
func (vc *VC) callback(fr *Frame, c *ssa.CallCommon, args []SV, fnv *SV) SV {
	sig := c.Signature()
	var rs []SV
	for i := 0; i < sig.Results().Len(); i++ {
		rt := sig.Results().At(i).Type()
		ls := vc.eng.layoutOf(rt).L
		v := SV{}
		for j, li := range ls {
			var asorts, aterms []string
			asorts = append(asorts, "Int")
			aterms = append(aterms, fnv.L[0])
			for k, a := range args {
				al := vc.eng.layoutOf(sig.Params().At(min(k, sig.Params().Len()-1)).Type()).L
				for q := range a.L {
					if q < len(al) {
						asorts = append(asorts, al[q].Sort)
						aterms = append(aterms, a.L[q])
					}
				}
			}
			f := quoteSym(fmt.Sprintf("callback:%s:%d:%d", types.TypeString(sig, nil), i, j))
			vc.declareUF(f, "("+strings.Join(asorts, " ")+") "+li.Sort)
			v.L = append(v.L, "("+f+" "+strings.Join(aterms, " ")+")")
		}
		rs = append(rs, v)
	}
	vc.noteCallback(fr, c, args, fnv)
	if len(rs) == 0 {
		return SV{}
	}
	return packResults(rs)
}

// ---- contract intrinsics (gc*) ---------------------------------------------------

func (vc *VC) gcIntrinsic(fr *Frame, inst *ssa.Function, args []SV) ([]SV, bool) {
	fn := origin(inst)
	n := fn.Name()
	if !strings.HasPrefix(n, "gc") {
		return nil, false
	}
	ptype := func(i int) types.Type { return inst.Signature.Params().At(i).Type() }
	switch n {
	case "gcOld":
		return nil, false // handled at the instruction level (needs the SSA operand)
	case "gcIte":
		out := SV{L: make([]string, len(args[1].L))}
		for j := range out.L {
			out.L[j] = ite(args[0].L[0], args[1].L[j], args[2].L[j])
		}
		return []SV{out}, true
	case "gcAllocated":
		// every reference inside the value was allocated no later than the state of evaluation
		var cs []string
		for j, li := range vc.eng.layoutOf(ptype(0)).L {
			if li.Kind == kRef && j < len(args[0].L) {
				cs = append(cs, "(<= "+args[0].L[j]+" "+vc.st.Alloc+")")
			}
		}
		return []SV{scalar(and(cs...))}, true
	case "gcNow":
		t := vc.st.Ghost["now"]
		if t == "" {
			t = "1.0"
		}
		return []SV{scalar(t)}, true
	case "gcFresh":
		// every reference inside the value was allocated during the current call
		var cs []string
		for j, li := range vc.eng.layoutOf(ptype(0)).L {
			if li.Kind == kRef && j < len(args[0].L) && !strings.HasSuffix(li.Path, ".len") {
				cs = append(cs, "(> "+args[0].L[j]+" "+vc.entryAlloc+")")
			}
		}
		return []SV{scalar(and(cs...))}, true
	case "gcCalls":
		return []SV{scalar(sel(vc.heapGet("CB:total:"+typeKey(ptype(0)), chIdxSort), args[0].L[0]))}, true
	case "gcCalledWith":
		srt := vc.eng.layoutOf(ptype(1)).L[0].Sort
		h := vc.heapGet("CB:with:"+typeKey(ptype(0)), "(Array Int (Array "+srt+" (_ BitVec 64)))")
		return []SV{scalar(sel(sel(h, args[0].L[0]), args[1].L[0]))}, true
	case "gcTail":
		vc.chET = chanElem(ptype(0))
		return []SV{scalar(vc.chTail(args[0].L[0]))}, true
	case "gcHead":
		vc.chET = chanElem(ptype(0))
		return []SV{scalar(vc.chHead(args[0].L[0]))}, true
	case "gcCap":
		vc.chET = chanElem(ptype(0))
		return []SV{scalar(vc.chCap(args[0].L[0]))}, true
	case "gcClosed":
		vc.chET = chanElem(ptype(0))
		return []SV{scalar(vc.chClosed(args[0].L[0]))}, true
	case "gcAwaited":
		vc.chET = chanElem(ptype(0))
		return []SV{scalar(sel(vc.chGet(vc.chKey("CH:awaited"), "(Array Int Bool)"), args[0].L[0]))}, true
	case "gcAt":
		vc.chET = chanElem(ptype(0))
		return []SV{vc.chAt(chanElem(ptype(0)), args[0].L[0], args[1].L[0])}, true
	case "gcSliceAt":
		return []SV{scalar(and(eq(args[0].L[0], args[1].L[0]), eq(args[0].L[1], vc.ix(args[1].L[1], args[2].L[0]))))}, true
	case "gcU64":
		// the []uint64 view of a byte slice's storage (reflect.SliceHeader reinterpretation, as in
		// z.BytesToUint64Slice): a pseudo-array whose reference is the negated reference of the
		// byte array (so it coincides with no allocated object and two views coincide exactly when
		// the byte arrays do), element offset = byte offset / 8.
		a := args[0]
		vc.ix("(_ bv0 64)", "(_ bv0 64)") // make sure ix is declared
		if !vc.declared["w8"] {
			vc.declared["w8"] = true
			// w8 x = x / 8, with the fact that it distributes over the offset composition ix when the
			// added offset is a multiple of 8 (offsets of slices never wrap: sliceWF)
			vc.decls = append(vc.decls, "(declare-fun w8 ((_ BitVec 64)) (_ BitVec 64))",
				"(assert (forall ((a (_ BitVec 64))) (! (= (w8 a) (bvlshr a (_ bv3 64))) :pattern ((w8 a)))))",
				"(assert (forall ((a (_ BitVec 64)) (c (_ BitVec 64))) (! (=> (and (= (bvand c (_ bv7 64)) (_ bv0 64)) (bvule a (_ bv4611686018427387904 64)) (bvule c (_ bv4611686018427387904 64))) (= (w8 (ix a c)) (ix (w8 a) (w8 c)))) :pattern ((w8 (ix a c))))))")
		}
		return []SV{{L: []string{"(- 0 " + a.L[0] + ")", "(w8 " + a.L[1] + ")", "(bvlshr " + a.L[2] + " (_ bv3 64))", "(bvlshr " + a.L[3] + " (_ bv3 64))"}}}, true
	case "gcWfSlice":
		// Go's slice-header invariant (what typeFacts assumes at loads), as a term
		a := args[0]
		wf := sliceWF(a.L[0], a.L[1], a.L[2], a.L[3])
		if vc.binder == 0 && vc.rec == nil {
			// true of every slice value Go can construct, in every state: stated as a fact
			// (typeFacts does the same at loads, but not inside specification code)
			vc.emit("(assert " + wf + ")")
			vc.noteAssumption("Go slice-header invariant (0 <= len <= cap, 0 <= offset, offset+cap does not wrap) for slices named by gcWfSlice in contracts")
		}
		return []SV{scalar(wf)}, true
	case "gcSameRef":
		var cs []string
		for j := range args[0].L {
			cs = append(cs, eq(args[0].L[j], args[1].L[j]))
		}
		return []SV{scalar(and(cs...))}, true
	case "gcSameArray":
		return []SV{scalar(eq(args[0].L[0], args[1].L[0]))}, true
	case "gcSameStorage":
		return []SV{scalar(and(eq(args[0].L[0], args[1].L[0]), eq(args[0].L[1], args[1].L[1]), eq(args[0].L[3], args[1].L[3])))}, true
	case "gcWithin":
		// the first slice's [off, off+cap) window lies inside the second's; same
		// difference form as frameCheck so that window inclusion is transitive by
		// syntactic matching alone
		a, b := args[0], args[1]
		d := "(bvsub " + a.L[1] + " " + b.L[1] + ")"
		alts := []string{and(eq(a.L[0], b.L[0]), "(bvsle (_ bv0 64) "+d+")", "(bvsle "+d+" "+b.L[3]+")", "(bvsle "+a.L[3]+" (bvsub "+b.L[3]+" "+d+"))")}
		if chain := vc.provChain(a.L[1]); len(chain) > 0 {
			// equivalent in exact arithmetic, but provable from header equalities alone
			for _, p := range chain {
				alts = append(alts, and(eq(a.L[0], b.L[0]), eq(p.pOff, b.L[1]), eq(p.pCap, b.L[3]), "(bvsle "+a.L[3]+" "+chain[0].rCap+")"))
			}
		}
		return []SV{scalar(or(alts...))}, true
	case "gcImplies":
		return []SV{scalar(implies(args[0].L[0], args[1].L[0]))}, true
	case "gcForall", "gcExists":
		cl := args[0]
		if cl.Fn == nil {
			vc.fail("quantifier body is not a function literal")
		}
		p := cl.Fn.Params[0]
		ls := vc.eng.layoutOf(p.Type()).L
		var binders []string
		bv := SV{}
		for _, li := range ls {
			vc.n++
			nm := fmt.Sprintf("q!%d", vc.n)
			binders = append(binders, "("+nm+" "+li.Sort+")")
			bv.L = append(bv.L, nm)
		}
		vc.inline++
		vc.pure++
		vc.binder++
		body := vc.execFunc(cl.Fn, []SV{bv}, cl.Bind, nil, false, vc.curOld())
		vc.binder--
		vc.pure--
		vc.inline--
		q := "forall"
		if n == "gcExists" {
			q = "exists"
		}
		return []SV{scalar(vc.mkQuant(q, binders, bv.L, body[0].L[0]))}, true
	case "gcSum":
		mi := vc.eng.mapInfoOf(ptype(0))
		ref := args[0].L[0]
		return []SV{scalar(vc.msum(mi, vc.mapDom(mi, ref), vc.mapVal(mi, ref, 0)))}, true
	case "gcCard":
		mi := vc.eng.mapInfoOf(ptype(0))
		return []SV{scalar(vc.mcard(mi, vc.mapDom(mi, args[0].L[0])))}, true
	case "gcHas":
		mi := vc.eng.mapInfoOf(ptype(0))
		return []SV{scalar(sel(vc.mapDom(mi, args[0].L[0]), args[1].L[0]))}, true
	}
	return nil, false
}

func (vc *VC) curOld() *State {
	for f := vc.curFrame; f != nil; f = f.parent {
		if f.oldHeap != nil {
			return f.oldHeap
		}
	}
	return nil
}

// ---- builtins ----------------------------------------------------------------------

func (vc *VC) builtin(fr *Frame, b *ssa.Builtin, c *ssa.CallCommon, args []SV) SV {
	switch b.Name() {
	case "len":
		switch t := c.Args[0].Type().Underlying().(type) {
		case *types.Slice:
			return scalar(args[0].L[2])
		case *types.Map:
			mi := vc.eng.mapInfoOf(c.Args[0].Type())
			vc.guardCheckMap(fr, c.Args[0], false)
			return scalar(vc.def(bvSort(64), vc.mcard(mi, vc.mapDom(mi, args[0].L[0]))))
		case *types.Basic: // string
			vc.declareUF("strlen", "(GoString) (_ BitVec 64)")
			return scalar("(strlen " + args[0].L[0] + ")")
		case *types.Chan:
			return scalar(vc.chanLenT(args[0].L[0], chanElem(c.Args[0].Type())))
		case *types.Pointer:
			return scalar(bvLitI(t.Elem().Underlying().(*types.Array).Len(), 64))
		case *types.Array:
			return scalar(bvLitI(t.Len(), 64))
		}
	case "cap":
		if _, ok := c.Args[0].Type().Underlying().(*types.Slice); ok {
			return scalar(args[0].L[3])
		}
	case "append":
		return vc.appendOp(fr, c, args)
	case "copy":
		return vc.copyOp(fr, c, args)
	case "delete":
		mi := vc.eng.mapInfoOf(c.Args[0].Type())
		vc.guardCheckMap(fr, c.Args[0], true)
		vc.mapWrite(mi, args[0].L[0], args[1].L[0], nil, false)
		return SV{}
	case "close":
		vc.chanClose(fr, args[0].L[0], chanElem(c.Args[0].Type()))
		return SV{}
	case "panic":
		vc.panicReached(fr, "panic")
		return SV{}
	case "min", "max":
		w, signed := vc.intInfo(c.Args[0].Type())
		cmp := "bvult"
		if signed {
			cmp = "bvslt"
		}
		r := args[0].L[0]
		for _, a := range args[1:] {
			if b.Name() == "min" {
				r = ite("("+cmp+" "+a.L[0]+" "+r+")", a.L[0], r)
			} else {
				r = ite("("+cmp+" "+r+" "+a.L[0]+")", a.L[0], r)
			}
		}
		return scalar(vc.def(bvSort(w), r))
	case "print", "println":
		return SV{}
	}
	vc.fail("unsupported builtin %s on %s", b.Name(), c.Args[0].Type())
	return SV{}
}

func (vc *VC) elemArrays(et types.Type, base string) (names, sorts, terms []string) {
	tk := typeKey(et)
	vc.eng.tkTypes[tk] = et
	for j, li := range vc.eng.layoutOf(et).L {
		name := elemHeapName(tk, j)
		sort := "(Array Int (Array (_ BitVec 64) " + li.Sort + "))"
		names = append(names, name)
		sorts = append(sorts, sort)
		terms = append(terms, sel(vc.heapGet(name, sort), base))
	}
	return
}

func (vc *VC) appendOp(fr *Frame, c *ssa.CallCommon, args []SV) SV {
	st := c.Args[0].Type().Underlying().(*types.Slice)
	et := st.Elem()
	s, t := args[0], args[1]
	if _, isStr := c.Args[1].Type().Underlying().(*types.Basic); isStr {
		vc.fail("append of a string is outside the supported subset")
	}
	els := vc.eng.layoutOf(et).L
	sbase, soff, slen, scap := s.L[0], s.L[1], s.L[2], s.L[3]
	tbase, toff, tlen := t.L[0], t.L[1], t.L[2]
	newlen := vc.def(bvSort(64), "(bvadd "+slen+" "+tlen+")")
	fits := vc.def("Bool", "(bvsle "+newlen+" "+scap+")")
	fresh := vc.def("Int", "(+ "+vc.st.Alloc+" 1)")
	vc.st.Alloc = fresh
	ncap := vc.fresh(bvSort(64), "appcap")
	vc.assume(and("(bvsle "+newlen+" "+ncap+")", "(bvsle "+ncap+" (_ bv4611686018427387904 64))"))
	rbase := vc.def("Int", ite(fits, sbase, fresh))
	roff := vc.def(bvSort(64), ite(fits, soff, bvLitI(0, 64)))
	rcap := vc.def(bvSort(64), ite(fits, scap, ncap))
	// in-place writes require the frame to cover the destination storage
	tk := typeKey(et)
	vc.eng.tkTypes[tk] = et
	if vc.pure == 0 && !vc.rootModsAll {
		saved := vc.st.Cond
		vc.st.Cond = vc.def("Bool", and(saved, fits, not(eq(tlen, bvLitI(0, 64)))))
		vc.frameCheck(Loc{Space: 'E', TK: tk, Ref: sbase, WinLo: "(bvadd " + soff + " " + slen + ")", WinLen: "(bvsub " + newlen + " " + slen + ")",
			ParentOff: soff, ParentCap: scap, LenOK: fits}, "append")
		vc.st.Cond = saved
	}
	names, sorts, sarr := vc.elemArrays(et, sbase)
	_, _, tarr := vc.elemArrays(et, tbase)
	for j := range els {
		asort := "(Array (_ BitVec 64) " + els[j].Sort + ")"
		S := vc.def(asort, sarr[j])
		T := vc.def(asort, tarr[j])
		R := vc.fresh(asort, "app")
		i := "i!q"
		vc.ix("x", "y") // make sure ix is declared
		src := fmt.Sprintf("(select %s (ix %s (bvsub %s %s)))", T, toff, i, slen)
		body := fmt.Sprintf("(= (select %s (ix %s %s)) (ite (and (bvsle (_ bv0 64) %s) (bvslt %s %s)) (select %s (ix %s %s)) (ite (and (bvsle %s %s) (bvslt %s %s)) %s (ite %s (select %s (ix %s %s)) %s))))",
			R, roff, i, i, i, slen, S, soff, i, slen, i, i, newlen, src, fits, S, soff, i, zeroOfSort(els[j]))
		vc.assume("(forall ((" + i + " (_ BitVec 64))) (! " + body + " :pattern ((select " + R + " (ix " + roff + " " + i + "))) :pattern ((select " + S + " (ix " + soff + " " + i + ")))))")
		// in-place case: everything outside the window keeps its value
		vc.assume(implies(fits, fmt.Sprintf("(forall ((%s (_ BitVec 64))) (! (=> (not (and (bvsle (bvadd %s %s) %s) (bvslt %s (bvadd %s %s)))) (= (select %s %s) (select %s %s))) :pattern ((select %s %s))))",
			i, soff, slen, i, i, soff, newlen, R, i, S, i, R, i)))
		h := vc.heapGet(names[j], sorts[j])
		vc.heapSet(names[j], sorts[j], sto(h, rbase, R))
	}
	return SV{L: []string{rbase, roff, newlen, rcap}}
}

func (vc *VC) copyOp(fr *Frame, c *ssa.CallCommon, args []SV) SV {
	dt, ok := c.Args[0].Type().Underlying().(*types.Slice)
	if !ok {
		vc.fail("copy into %s unsupported", c.Args[0].Type())
	}
	if _, isStr := c.Args[1].Type().Underlying().(*types.Basic); isStr {
		vc.fail("copy from a string is outside the supported subset")
	}
	et := dt.Elem()
	d, s := args[0], args[1]
	n := vc.def(bvSort(64), ite("(bvslt "+d.L[2]+" "+s.L[2]+")", d.L[2], s.L[2]))
	tk := typeKey(et)
	vc.eng.tkTypes[tk] = et
	if vc.pure == 0 && !vc.rootModsAll {
		saved := vc.st.Cond
		vc.st.Cond = vc.def("Bool", and(saved, not(eq(n, bvLitI(0, 64)))))
		vc.frameCheck(Loc{Space: 'E', TK: tk, Ref: d.L[0], WinLo: d.L[1], WinLen: n}, "copy")
		vc.st.Cond = saved
	}
	names, sorts, darr := vc.elemArrays(et, d.L[0])
	_, _, sarr := vc.elemArrays(et, s.L[0])
	els := vc.eng.layoutOf(et).L
	for j := range els {
		asort := "(Array (_ BitVec 64) " + els[j].Sort + ")"
		D := vc.def(asort, darr[j])
		S := vc.def(asort, sarr[j])
		R := vc.fresh(asort, "cpy")
		i := "i!q"
		vc.ix("x", "y")
		// copied window (memmove semantics: the source is read before the write)
		vc.assume(fmt.Sprintf("(forall ((%s (_ BitVec 64))) (! (=> (and (bvsle (_ bv0 64) %s) (bvslt %s %s)) (= (select %s (ix %s %s)) (select %s (ix %s %s)))) :pattern ((select %s (ix %s %s))) :pattern ((select %s (ix %s %s)))))",
			i, i, i, n, R, d.L[1], i, S, s.L[1], i, R, d.L[1], i, S, s.L[1], i))
		// the same, indexed by absolute position (matches reads written as s[off+j])
		vc.assume(fmt.Sprintf("(forall ((%s (_ BitVec 64))) (! (=> (and (bvsle %s %s) (bvslt %s (bvadd %s %s))) (= (select %s %s) (select %s (bvadd %s (bvsub %s %s))))) :pattern ((select %s %s))))",
			i, d.L[1], i, i, d.L[1], n, R, i, S, s.L[1], i, d.L[1], R, i))
		// everything outside the window keeps its value
		vc.assume(fmt.Sprintf("(forall ((%s (_ BitVec 64))) (! (=> (not (and (bvsle %s %s) (bvslt %s (bvadd %s %s)))) (= (select %s %s) (select %s %s))) :pattern ((select %s %s))))",
			i, d.L[1], i, i, d.L[1], n, R, i, D, i, R, i))
		h := vc.heapGet(names[j], sorts[j])
		vc.heapSet(names[j], sorts[j], sto(h, d.L[0], R))
	}
	return scalar(n)
}

// evalOld evaluates SSA value v of the current specification function in the
// old state, by re-running the function there.
func (vc *VC) evalOld(fr *Frame, v ssa.Value) SV {
	old := vc.curOld()
	if old == nil {
		return vc.val(fr, v)
	}
	if fr.oldRun == nil {
		savedSt, savedFrame := vc.st, vc.curFrame
		vc.st = &State{Cond: "true", Heap: old.Heap, Alloc: old.Alloc, Locks: old.Locks, Ghost: old.Ghost}
		vc.curFrame = nil
		vc.pure++
		vc.inline++
		// the re-run must not see itself on the inlining stack
		savedStack := vc.stack
		vc.stack = nil
		vc.execFunc(fr.fn, fr.args, fr.bind, nil, false, nil)
		vc.stack = savedStack
		vc.pure--
		vc.inline--
		fr.oldRun = vc.lastFrame
		vc.st, vc.curFrame = savedSt, savedFrame
	}
	return vc.val(fr.oldRun, v)
}

// evalOldAt: like evalOld, in the state snapshot taken by `at call f#k mark label`.
func (vc *VC) evalOldAt(fr *Frame, v ssa.Value, label string) SV {
	if vc.inOldAt[label] {
		return vc.val(fr, v) // already evaluating in that snapshot
	}
	m := vc.marks[label]
	if m == nil {
		vc.fail("oldat(%q, ...): no such mark was reached on this path", label)
	}
	if fr.oldRunAt == nil {
		fr.oldRunAt = map[string]*Frame{}
	}
	if fr.oldRunAt[label] == nil {
		savedSt, savedFrame := vc.st, vc.curFrame
		vc.st = &State{Cond: "true", Heap: m.Heap, Alloc: m.Alloc, Locks: m.Locks, Ghost: m.Ghost}
		vc.curFrame = nil
		vc.pure++
		vc.inline++
		savedStack := vc.stack
		vc.stack = nil
		if vc.inOldAt == nil {
			vc.inOldAt = map[string]bool{}
		}
		vc.inOldAt[label] = true
		vc.execFunc(fr.fn, fr.args, fr.bind, nil, false, nil)
		vc.inOldAt[label] = false
		vc.stack = savedStack
		vc.pure--
		vc.inline--
		fr.oldRunAt[label] = vc.lastFrame
		vc.st, vc.curFrame = savedSt, savedFrame
	}
	return vc.val(fr.oldRunAt[label], v)
}

// ---- opaque specification functions -------------------------------------------------
//
// An opaque spec function is an uninterpreted SMT function of its arguments and
// of the heap arrays its body reads, with one definitional axiom whose trigger is
// the application itself.  This keeps quantifier triggers stable.

type opaqueDef struct {
	name    string
	fn      *ssa.Function
	heaps   []string // heap array names read (in order)
	hsorts  []string
	rets    []string // SMT function name per result leaf
	formals []string
	fsorts  []string
	bodies  []string // body per result leaf, over formals and |H:name| heap formals
	nested  []*opaqueDef
	done    map[string]bool // heap tuples for which the definitional axiom was emitted
}

func (vc *VC) applyOpaque(fn *ssa.Function, args []SV) []SV {
	key := fn.String()
	od := vc.opaque[key]
	if od == nil {
		od = vc.defineOpaque(fn)
	}
	if vc.rec != nil && vc.recOwner != nil && vc.recOwner != od {
		// called from the body of another opaque function being defined
		found := false
		for _, n := range vc.recOwner.nested {
			if n == od {
				found = true
			}
		}
		if !found {
			vc.recOwner.nested = append(vc.recOwner.nested, od)
		}
	}
	var terms []string
	for _, a := range args {
		terms = append(terms, a.L...)
	}
	var hterms []string
	for i, h := range od.heaps {
		hterms = append(hterms, vc.heapGet(h, od.hsorts[i]))
	}
	terms = append(terms, hterms...)
	out := SV{}
	for _, f := range od.rets {
		if len(terms) == 0 {
			out.L = append(out.L, f)
		} else {
			out.L = append(out.L, "("+f+" "+strings.Join(terms, " ")+")")
		}
	}
	if vc.rec == nil && !vc.hidden[od.name] {
		if vc.revealed[od.name] {
			hm := map[string]string{}
			for i, h := range od.heaps {
				hm[h] = hterms[i]
			}
			vc.opaqueAxiom(od, hm)
		} else if vc.binder == 0 && !vc.grounding[out.L[0]] {
			// a ground application outside any binder is always defined (one unfolding)
			if vc.grounding == nil {
				vc.grounding = map[string]bool{}
			}
			vc.grounding[out.L[0]] = true
			vc.pure++
			vc.inline++
			savedStack := vc.stack
			vc.stack = nil
			body := vc.execFunc(fn, args, nil, nil, false, nil)
			vc.stack = savedStack
			vc.pure--
			vc.inline--
			rl := vc.eng.layoutOf(fn.Signature.Results().At(0).Type()).L
			for j := range od.rets {
				if false && rl[j].Kind == kBool && strings.Contains(body[0].L[j], "(forall ") {
					// two implications keep each quantifier in a single polarity
					vc.emit("(assert (=> " + out.L[j] + " " + body[0].L[j] + "))")
					vc.emit("(assert (=> " + body[0].L[j] + " " + out.L[j] + "))")
				} else {
					vc.emit("(assert " + eq(out.L[j], body[0].L[j]) + ")")
				}
			}
		}
	}
	return []SV{out}
}

func unusedOpaque(od *opaqueDef, terms, hterms []string) []SV {
	terms = append(terms, hterms...)
	out := SV{}
	for _, f := range od.rets {
		if len(terms) == 0 {
			out.L = append(out.L, f)
		} else {
			out.L = append(out.L, "("+f+" "+strings.Join(terms, " ")+")")
		}
	}
	return []SV{out}
}

// opaqueAxiom emits the definitional axiom of od specialised to one tuple of heap
// terms (quantifying over scalar arguments only -- never over arrays, which the
// solvers handle badly).
func (vc *VC) opaqueAxiom(od *opaqueDef, heap map[string]string) {
	var hs []string
	for _, h := range od.heaps {
		hs = append(hs, heap[h])
	}
	key := strings.Join(hs, "\x00")
	if od.done[key] {
		return
	}
	od.done[key] = true
	subst := func(t string) string {
		for h, term := range heap {
			t = strings.ReplaceAll(t, quoteSym("H:"+h), term)
		}
		return t
	}
	var binders []string
	for i := range od.formals {
		binders = append(binders, "("+od.formals[i]+" "+od.fsorts[i]+")")
	}
	all := append(append([]string{}, od.formals...), hs...)
	for j, f := range od.rets {
		if len(all) == 0 {
			continue
		}
		app := "(" + f + " " + strings.Join(all, " ") + ")"
		if len(binders) == 0 {
			vc.emit(fmt.Sprintf("(assert (= %s %s))", app, subst(od.bodies[j])))
		} else {
			vc.emit(fmt.Sprintf("(assert (forall (%s) (! (= %s %s) :pattern (%s))))", strings.Join(binders, " "), app, subst(od.bodies[j]), app))
		}
	}
	for _, n := range od.nested {
		vc.opaqueAxiom(n, heap)
	}
}

func (vc *VC) defineOpaque(fn *ssa.Function) *opaqueDef {
	if vc.opaque == nil {
		vc.opaque = map[string]*opaqueDef{}
	}
	od := &opaqueDef{name: fn.Name(), fn: fn, done: map[string]bool{}}
	vc.opaque[fn.String()] = od // recursion guard
	var fargs []SV
	for _, p := range fn.Params {
		v := SV{}
		for _, li := range vc.eng.layoutOf(p.Type()).L {
			vc.n++
			nm := fmt.Sprintf("a!%d", vc.n)
			od.formals = append(od.formals, nm)
			od.fsorts = append(od.fsorts, li.Sort)
			v.L = append(v.L, nm)
		}
		fargs = append(fargs, v)
	}
	rec := &heapRec{}
	savedSt, savedFrame, savedRec, savedStack, savedOwner := vc.st, vc.curFrame, vc.rec, vc.stack, vc.recOwner
	vc.st = &State{Cond: "true", Heap: map[string]string{}, Alloc: "alloc0", Locks: map[string]int{}, Ghost: map[string]string{}}
	vc.curFrame = nil
	vc.rec = rec
	vc.recOwner = od
	vc.stack = nil
	vc.pure++
	vc.inline++
	body := vc.execFunc(fn, fargs, nil, nil, false, nil)
	vc.pure--
	vc.inline--
	vc.st, vc.curFrame, vc.rec, vc.stack, vc.recOwner = savedSt, savedFrame, savedRec, savedStack, savedOwner
	// nested opaque functions read heaps too
	od.heaps, od.hsorts = rec.names, rec.sorts
	if savedRec != nil {
		// propagate the reads to the function whose body is being recorded
		for i, h := range od.heaps {
			vc.heapGet(h, od.hsorts[i])
		}
	}
	sorts := append(append([]string{}, od.fsorts...), od.hsorts...)
	rls := vc.eng.layoutOf(fn.Signature.Results().At(0).Type()).L
	for j, li := range rls {
		f := quoteSym(fmt.Sprintf("spec:%s#%d", fn.Name(), j))
		if len(rls) == 1 {
			f = quoteSym("spec:" + fn.Name())
		}
		od.rets = append(od.rets, f)
		od.bodies = append(od.bodies, body[0].L[j])
		if len(sorts) == 0 {
			vc.decls = append(vc.decls, fmt.Sprintf("(declare-const %s %s)", f, li.Sort), fmt.Sprintf("(assert (= %s %s))", f, body[0].L[j]))
			continue
		}
		vc.decls = append(vc.decls, fmt.Sprintf("(declare-fun %s (%s) %s)", f, strings.Join(sorts, " "), li.Sort))
	}
	return od
}

type heapRec struct {
	names []string
	sorts []string
}

type quantInfo struct {
	q       string
	binders []string
	vars    []string
	body    string
}

// mkQuant builds a quantified formula with explicit triggers; directly nested
// quantifiers of the same kind are merged so that triggers can mention all
// their variables.
func (vc *VC) mkQuant(q string, binders, vars []string, body string) string {
	if vc.quants == nil {
		vc.quants = map[string]*quantInfo{}
	}
	if qi, ok := vc.quants[body]; ok && qi.q == q {
		binders = append(append([]string{}, binders...), qi.binders...)
		vars = append(append([]string{}, vars...), qi.vars...)
		body = qi.body
	}
	var t string
	pats := []string(nil)
	if q == "forall" {
		pats = inferPatterns(vars, body)
	}
	if len(pats) > 0 {
		t = "(" + q + " (" + strings.Join(binders, " ") + ") (! " + body
		for _, p := range pats {
			t += " :pattern " + p
		}
		t += "))"
	} else {
		t = "(" + q + " (" + strings.Join(binders, " ") + ") " + body + ")"
	}
	vc.quants[t] = &quantInfo{q: q, binders: binders, vars: vars, body: body}
	return t
}

// yieldBefore havocs the state guarded by the lock that makes callee fi atomic,
// subject to the lock invariant (a yield point of the Owicki-Gries style proof).
func (vc *VC) yieldBefore(fi *FuncInfo, cargs []SV, cname string) {
	var owner SV
	var ot types.Type
	if fi.C.LockOf != nil {
		v := vc.evalValueFunc(fi.C.LockOf.GoName, fi.C.Pkg, cargs, vc.st, vc.st)
		if v.Box == nil {
			return
		}
		owner, ot = *v.Box, v.BoxT
	} else if _, ok := fi.C.Attrs["atomic"]; ok && len(cargs) > 0 && fi.Obj.Type().(*types.Signature).Recv() != nil {
		owner, ot = cargs[0], fi.Obj.Type().(*types.Signature).Recv().Type()
	} else {
		return
	}
	pt, ok := ot.Underlying().(*types.Pointer)
	if !ok {
		return
	}
	tk := typeKey(pt.Elem())
	vc.eng.tkTypes[tk] = pt.Elem()
	li := vc.eng.lockInvFor(&LVal{TK: tk})
	if li == nil {
		return
	}
	// locks this goroutine holds protect their state from interference
	self := SV{L: []string{owner.L[0]}}
	before := vc.st.clone()
	for _, l := range vc.guardLocs(li, self) {
		vc.havocLoc(l)
	}
	g := vc.evalClause(li.GoName, li.Pkg, []SV{self}, vc.st, vc.entry)
	vc.assume(g)
	if li.RelyGo != "" {
		// what the other goroutines are relied upon to respect (old = before the yield)
		vc.assume(vc.evalClause(li.RelyGo, li.Pkg, []SV{self}, vc.st, before))
		vc.noteAssumption("rely on " + li.Type + ": " + li.Rely)
	}
	vc.noteAssumption("yields: other goroutines may change lock-guarded state between the atomic steps of this function (subject to the lock invariants)")
}
