package main

import (
	"flag"
	"fmt"
	"os"
	"sort"
	"strconv"
	"strings"
	"time"
)

func envInt(name string, def int) int {
	if v := os.Getenv(name); v != "" {
		if n, err := strconv.Atoi(v); err == nil {
			return n
		}
	}
	return def
}

func main() {
	if len(os.Args) < 2 {
		fmt.Fprintln(os.Stderr, "usage: govc verify|check|gen|replay|lock|selftest ...")
		os.Exit(2)
	}
	cmd := os.Args[1]
	fs := flag.NewFlagSet(cmd, flag.ExitOnError)
	repo := fs.String("repo", "/repo", "repository root")
	prop := fs.String("property", "", "property id")
	tier := fs.String("tier", os.Getenv("VERIF_TIER"), "quick|thorough")
	verbose := fs.Bool("v", false, "verbose")
	timeout := fs.Int("timeout", 0, "solver timeout per obligation (s)")
	out := fs.String("out", "", "scratch directory for SMT scripts")
	verif := fs.String("verif", "/verif", "framework root")
	fs.Parse(os.Args[2:])
	if *tier == "" {
		*tier = "quick"
	}
	seed := envInt("VERIF_SEED", 0)
	switch cmd {
	case "gen":
		e, err := loadEngine(*repo, "")
		if err != nil {
			fmt.Fprintln(os.Stderr, "error:", err)
			if e != nil {
				for d, s := range e.genSrc {
					fmt.Printf("---- %s ----\n%s\n", d, s)
				}
			}
			os.Exit(2)
		}
		for d, s := range e.genSrc {
			fmt.Printf("---- %s ----\n%s\n", d, s)
		}
	case "verify":
		e, err := loadEngine(*repo, os.Getenv("GOVC_GOARCH"))
		if err != nil {
			fmt.Fprintln(os.Stderr, "error:", err)
			os.Exit(2)
		}
		for _, cf := range e.cfiles {
			for k, why := range cf.Broken {
				fmt.Fprintf(os.Stderr, "BROKEN CONTRACT %s: %s\n", k, why)
			}
		}
		var keys []string
		for _, a := range fs.Args() {
			if strings.HasSuffix(a, ":") { // whole package
				for k := range e.infos {
					if strings.HasPrefix(k, a) {
						keys = append(keys, k)
					}
				}
			} else {
				keys = append(keys, a)
			}
		}
		if len(fs.Args()) == 0 {
			for k := range e.infos {
				keys = append(keys, k)
			}
		}
		var lemmaResults []*FuncResult
		for _, cf := range e.cfiles {
			for _, l := range cf.Lemmas {
				want := len(fs.Args()) == 0
				for _, a := range fs.Args() {
					if a == cf.Pkg+":" || a == "lemma:"+l.Name {
						want = true
					}
				}
				if want {
					lemmaResults = append(lemmaResults, e.verifyLemma(l))
				}
			}
		}
		var fkeys []string
		for _, k := range keys {
			if !strings.HasPrefix(k, "lemma:") {
				fkeys = append(fkeys, k)
			}
		}
		keys = fkeys
		sort.Strings(keys)
		var results []*FuncResult
		t0 := time.Now()
		for _, k := range keys {
			if _, ok := e.infos[k]; !ok {
				// allow suffix match
				var m []string
				for kk := range e.infos {
					if strings.HasSuffix(kk, k) {
						m = append(m, kk)
					}
				}
				if len(m) != 1 {
					fmt.Fprintf(os.Stderr, "no contract %q (matches: %v)\n", k, m)
					os.Exit(2)
				}
				k = m[0]
			}
			results = append(results, e.verifyFunc(k))
		}
		results = append(results, lemmaResults...)
		gen := time.Since(t0)
		to := 20 * time.Second
		if *timeout > 0 {
			to = time.Duration(*timeout) * time.Second
		}
		od := *out
		if od == "" {
			od = *verif + "/out/dev"
		}
		os.RemoveAll(od)
		t1 := time.Now()
		dischargeAll(results, solveOpts{OutDir: od, Timeout: to, Seed: seed, Jobs: 8})
		bad := 0
		for _, r := range results {
			if r.Trusted != "" {
				fmt.Printf("%-50s TRUSTED (%s)\n", r.Key, r.Trusted)
				continue
			}
			if r.Err != "" {
				fmt.Printf("%-50s ENGINE ERROR: %s\n", r.Key, r.Err)
				bad++
			}
			n, d := 0, 0
			for _, o := range r.Obls {
				if o.Kind != "assert" {
					if o.Status == "vacuous" {
						fmt.Printf("  VACUOUS %s\n", o.Name)
						bad++
					}
					continue
				}
				n++
				if o.Status == "discharged" {
					d++
					if *verbose {
						fmt.Printf("  ok      %-70s %s %.2fs\n", o.Name, o.Backend, o.Time)
					}
				} else {
					bad++
					fmt.Printf("  %-9s %s  [%s]\n", strings.ToUpper(o.Status), o.Name, o.Where)
					if *verbose || true {
						fmt.Printf("            %s\n", firstLines(o.Output, 4))
					}
					if os.Getenv("GOVC_REPLAY") != "" {
						rp, ok := makeReplay(e, *verif+"/out/dev-replay", "DEV", r, o)
						fmt.Printf("            replay: %s reproduced=%v\n", rp, ok)
					}
				}
			}
			fmt.Printf("%-50s %d/%d discharged\n", r.Key, d, n)
		}
		fmt.Printf("vcgen %.2fs, solving %.2fs\n", gen.Seconds(), time.Since(t1).Seconds())
		if bad > 0 {
			os.Exit(1)
		}
	default:
		if err := runCommand(cmd, *repo, *verif, *prop, *tier, seed, fs.Args(), *timeout); err != nil {
			fmt.Fprintln(os.Stderr, "error:", err)
			os.Exit(2)
		}
	}
}
