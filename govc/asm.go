package main

// Front end for the one function that is not Go: z/simd/search_amd64.s.  It
// parses the Plan 9 subset that file uses, executes it symbolically over 64-bit
// bit-vectors and flags, cuts the loop at the label that carries an invariant,
// and produces obligations in the same form as the Go front end: one per memory
// load (the load stays inside the slice), invariant init/preserve, postcondition.
// An unknown mnemonic or operand form is a hard error, never a skip.

import (
	"fmt"
	"go/types"
	"os"
	"path/filepath"
	"regexp"
	"strconv"
	"strings"
)

type asmIns struct {
	op      string
	args    []string
	label   string // label defined at this instruction
	comment string // last `// text` comment line before the instruction (names obligations)
	line    int
}

var reText = regexp.MustCompile(`^TEXT\s+·(\w+)\(SB\)`)

func parseAsm(path, fn string) ([]asmIns, error) {
	data, err := os.ReadFile(path)
	if err != nil {
		return nil, err
	}
	var out []asmIns
	in := false
	pendingLabel, lastComment := "", ""
	for i, raw := range strings.Split(string(data), "\n") {
		l := strings.TrimSpace(raw)
		if m := reText.FindStringSubmatch(l); m != nil {
			in = m[1] == fn
			continue
		}
		if !in || l == "" || strings.HasPrefix(l, "#") {
			continue
		}
		if strings.HasPrefix(l, "//") {
			lastComment = strings.TrimSpace(strings.TrimPrefix(l, "//"))
			continue
		}
		if strings.HasSuffix(l, ":") {
			pendingLabel = strings.TrimSuffix(l, ":")
			continue
		}
		sp := strings.IndexAny(l, " \t")
		ins := asmIns{line: i + 1, label: pendingLabel, comment: lastComment}
		pendingLabel = ""
		if sp < 0 {
			ins.op = l
		} else {
			ins.op = l[:sp]
			for _, a := range strings.Split(l[sp+1:], ",") {
				ins.args = append(ins.args, strings.TrimSpace(a))
			}
		}
		out = append(out, ins)
	}
	if len(out) == 0 {
		return nil, fmt.Errorf("assembly function %s not found in %s", fn, path)
	}
	return out, nil
}

type asmState struct {
	regs   map[string]string // 64-bit terms
	cmpA   string            // last CMPQ operands (a, b): flags of a - b
	cmpB   string
	cond   string
	hasPtr map[string]bool // registers holding &xs[0]
}

func (s *asmState) clone() *asmState {
	n := &asmState{regs: map[string]string{}, cmpA: s.cmpA, cmpB: s.cmpB, cond: s.cond, hasPtr: map[string]bool{}}
	for k, v := range s.regs {
		n.regs[k] = v
	}
	for k, v := range s.hasPtr {
		n.hasPtr[k] = v
	}
	return n
}

var asmRegs = []string{"AX", "BX", "CX", "DX", "BP", "SI", "DI", "R8", "R9", "R10", "R11"}

var reMem = regexp.MustCompile(`^(\d+)?\((\w+)\)\((\w+)\*(\d+)\)$`)
var reFP = regexp.MustCompile(`^(\w+)\+(\d+)\(FP\)$`)

// verifyAsm verifies the assembly body of the function named by an `asm`
// contract.  Parameters are those of the Go stub declaration (xs []uint64, k uint64).
func (e *Engine) verifyAsm(key string) (res *FuncResult) {
	fi := e.infos[key]
	fn := e.fnOf[key]
	res = &FuncResult{Key: key, Fn: fn.String() + "[asm]"}
	vc := &VC{eng: e, root: fn, fi: fi, heapSort: map[string]string{}, declared: map[string]bool{}, strLits: map[string]string{},
		oblNames: map[string]int{}, uf: map[string]bool{}, revealed: map[string]bool{}}
	res.VC = vc
	defer func() {
		if r := recover(); r != nil {
			if ve, ok := r.(vcError); ok {
				res.Err = ve.msg
				res.Obls = vc.obls
				return
			}
			panic(r)
		}
	}()
	file := filepath.Join(e.repo, fi.C.Pkg, fi.C.Attrs["asm"])
	prog, err := parseAsm(file, fi.C.Name)
	if err != nil {
		vc.fail("%v", err)
	}
	vc.decls = append(vc.decls, "(declare-const alloc0 Int)", "(assert (>= alloc0 0))")
	vc.entryAlloc = "alloc0"
	vc.st = &State{Cond: "true", Heap: map[string]string{}, Alloc: "alloc0", Locks: map[string]int{}, Ghost: map[string]string{}}
	vc.entry = vc.st.clone()
	vc.rootModsAll = true
	for _, r := range strings.Split(fi.C.Attrs["reveal"], ",") {
		if r = strings.TrimSpace(r); r != "" {
			vc.revealed[r] = true
		}
	}
	vc.noteAssumption("assembly semantics: instruction table for MOVQ MOVL XORL CMPQ ADDQ ADDL SHRL JAE JB JMP RET over 64-bit vectors; ABI0 frame layout of the stub (xs_base+0, xs_len+8, k+24, ret+32); the 4-byte store to the 2-byte result slot is harmless under ABI0 frame padding")
	var args []SV
	params := fn.Signature.Params()
	for i := 0; i < params.Len(); i++ {
		p := params.At(i)
		v := SV{}
		for _, li := range e.layoutOf(p.Type()).L {
			n := quoteSym("in_" + p.Name() + li.Path)
			vc.decls = append(vc.decls, fmt.Sprintf("(declare-const %s %s)", n, li.Sort))
			vc.inputs = append(vc.inputs, inputVar{Name: n, Sort: li.Sort, Desc: p.Name() + li.Path})
			v.L = append(v.L, n)
		}
		vc.typeFacts(p.Type(), v)
		args = append(args, v)
	}
	if len(args) != 2 || len(args[0].L) != 4 || len(args[1].L) != 1 {
		vc.fail("asm front end supports the signature (xs []uint64, k uint64) only")
	}
	xs, k := args[0], args[1]
	for _, rq := range fi.C.Requires {
		vc.assume(vc.evalClause(rq.GoName, fi.C.Pkg, args, vc.st, vc.entry))
	}
	vc.obls = append(vc.obls, &Obl{Name: fn.String() + "#vacuity:requires", Kind: "sat", Prefix: len(vc.lines), Guard: "true", Goal: "false", Func: fn.String()})
	et := params.At(0).Type().Underlying().(*types.Slice).Elem()
	_, _, arrs := vc.elemArrays(et, xs.L[0])
	mem := vc.def("(Array (_ BitVec 64) (_ BitVec 64))", arrs[0])

	labelAt := map[string]int{}
	for i, ins := range prog {
		if ins.label != "" {
			labelAt[ins.label] = i
		}
	}
	regArgs := func(st *asmState) []SV {
		out := append([]SV{}, args...)
		for _, r := range asmRegs {
			v := st.regs[r]
			if st.hasPtr[r] {
				v = bvLitI(0, 64)
			}
			out = append(out, scalar(v))
		}
		return out
	}
	init := &asmState{regs: map[string]string{}, cond: "true", hasPtr: map[string]bool{}}
	for _, r := range asmRegs {
		init.regs[r] = vc.fresh(bvSort(64), "reg_"+r)
	}
	low32 := func(t string) string { return "((_ extract 31 0) " + t + ")" }
	zext32 := func(t string) string { return "((_ zero_extend 32) " + t + ")" }
	val := func(st *asmState, a string) string {
		if strings.HasPrefix(a, "$") {
			n, err := strconv.ParseInt(strings.TrimPrefix(a, "$"), 0, 64)
			if err != nil {
				vc.fail("asm: bad immediate %s", a)
			}
			return bvLitI(n, 64)
		}
		if v, ok := st.regs[a]; ok {
			return v
		}
		vc.fail("asm: unsupported operand %q", a)
		return ""
	}
	type work struct {
		pc int
		st *asmState
	}
	inLoopHead := map[string]bool{}
	var stack []work
	stack = append(stack, work{0, init})
	steps := 0
	for len(stack) > 0 {
		w := stack[len(stack)-1]
		stack = stack[:len(stack)-1]
		st := w.st
		pc := w.pc
		for {
			steps++
			if steps > 10000 {
				vc.fail("asm: path explosion")
			}
			if pc >= len(prog) {
				vc.fail("asm: fell off the end of the function")
			}
			ins := prog[pc]
			vc.st.Cond = st.cond
			if ins.label != "" {
				if invs, ok := fi.C.LabelInv[ins.label]; ok {
					if st.regs["__at_"+ins.label] == "1" {
						// back edge: the invariant is preserved
						vc.smoke("label:" + ins.label + ".body")
						for i, c := range invs {
							g := vc.evalClause(c.GoName, fi.C.Pkg, regArgs(st), vc.st, vc.entry)
							vc.oblige("asm:"+ins.label+".preserve:"+clauseLabel(c, i), c.Tags, g)
						}
						break
					}
					// first arrival: establish, havoc, assume
					for i, c := range invs {
						g := vc.evalClause(c.GoName, fi.C.Pkg, regArgs(st), vc.st, vc.entry)
						vc.oblige("asm:"+ins.label+".init:"+clauseLabel(c, i), c.Tags, g)
					}
					written := map[string]bool{}
					for _, x := range prog[pc:] {
						if len(x.args) > 0 {
							switch x.op {
							case "MOVQ", "MOVL", "XORL", "ADDQ", "ADDL", "SHRL":
								written[x.args[len(x.args)-1]] = true
							}
						}
					}
					st = st.clone()
					for r := range written {
						if _, ok := st.regs[r]; ok {
							st.regs[r] = vc.fresh(bvSort(64), "loop_"+r)
							delete(st.hasPtr, r)
						}
					}
					st.regs["__at_"+ins.label] = "1"
					inLoopHead[ins.label] = true
					for _, c := range invs {
						vc.assume(vc.evalClause(c.GoName, fi.C.Pkg, regArgs(st), vc.st, vc.entry))
					}
				}
			}
			name := ins.comment
			switch ins.op {
			case "MOVQ", "MOVL":
				src, dst := ins.args[0], ins.args[1]
				if m := reFP.FindStringSubmatch(src); m != nil {
					st = st.clone()
					switch m[1] {
					case "xs_base":
						st.regs[dst] = bvLitI(0, 64)
						st.hasPtr[dst] = true
					case "xs_len":
						st.regs[dst] = xs.L[2]
						delete(st.hasPtr, dst)
					case "k":
						st.regs[dst] = k.L[0]
						delete(st.hasPtr, dst)
					default:
						vc.fail("asm: unknown frame slot %s", src)
					}
				} else if m := reFP.FindStringSubmatch(dst); m != nil {
					if m[1] != "ret" {
						vc.fail("asm: store to frame slot %s", dst)
					}
					st = st.clone()
					st.regs["__ret"] = val(st, src)
				} else {
					st = st.clone()
					v := val(st, src)
					if ins.op == "MOVL" {
						v = vc.def(bvSort(64), zext32(low32(v)))
					}
					st.regs[dst] = v
					if st.hasPtr[src] && ins.op == "MOVQ" {
						st.hasPtr[dst] = true
					} else {
						delete(st.hasPtr, dst)
					}
				}
			case "XORL":
				st = st.clone()
				a, b := ins.args[0], ins.args[1]
				st.regs[b] = vc.def(bvSort(64), zext32("(bvxor "+low32(val(st, a))+" "+low32(val(st, b))+")"))
				delete(st.hasPtr, b)
			case "ADDQ":
				st = st.clone()
				st.regs[ins.args[1]] = vc.def(bvSort(64), "(bvadd "+val(st, ins.args[1])+" "+val(st, ins.args[0])+")")
			case "ADDL":
				st = st.clone()
				st.regs[ins.args[1]] = vc.def(bvSort(64), zext32("(bvadd "+low32(val(st, ins.args[1]))+" "+low32(val(st, ins.args[0]))+")"))
			case "SHRL":
				st = st.clone()
				st.regs[ins.args[1]] = vc.def(bvSort(64), zext32("(bvlshr "+low32(val(st, ins.args[1]))+" "+low32(val(st, ins.args[0]))+")"))
			case "CMPQ":
				st = st.clone()
				a, b := ins.args[0], ins.args[1]
				load := func(op string) string {
					m := reMem.FindStringSubmatch(op)
					if m == nil {
						return val(st, op)
					}
					disp := int64(0)
					if m[1] != "" {
						disp, _ = strconv.ParseInt(m[1], 10, 64)
					}
					scale, _ := strconv.ParseInt(m[4], 10, 64)
					if !st.hasPtr[m[2]] || scale != 8 || disp%8 != 0 {
						vc.fail("asm: load %s is not of the form d(ptr)(idx*8) with ptr = &xs[0]", op)
					}
					idx := vc.def(bvSort(64), "(bvadd "+val(st, m[3])+" "+bvLitI(disp/8, 64)+")")
					// the load must stay inside xs: no wrap-around and index < len
					vc.oblige("asm:load.inbounds:"+sanitize(name), []string{"C20"},
						and("(bvult "+val(st, m[3])+" (_ bv1152921504606846976 64))", "(bvult "+idx+" "+xs.L[2]+")"))
					return vc.def(bvSort(64), sel(mem, vc.ix(xs.L[1], idx)))
				}
				st.cmpA, st.cmpB = load(a), load(b)
			case "JAE", "JB", "JMP", "JA", "JBE", "JEQ", "JE", "JNE", "JCC", "JCS", "JHI", "JLS":
				tgt, ok := labelAt[ins.args[0]]
				if !ok {
					vc.fail("asm: unknown label %s", ins.args[0])
				}
				if ins.op == "JMP" {
					pc = tgt
					continue
				}
				var c string
				switch ins.op {
				case "JAE", "JCC":
					c = "(bvuge " + st.cmpA + " " + st.cmpB + ")"
				case "JB", "JCS":
					c = "(bvult " + st.cmpA + " " + st.cmpB + ")"
				case "JA", "JHI":
					c = "(bvugt " + st.cmpA + " " + st.cmpB + ")"
				case "JBE", "JLS":
					c = "(bvule " + st.cmpA + " " + st.cmpB + ")"
				case "JEQ", "JE":
					c = eq(st.cmpA, st.cmpB)
				case "JNE":
					c = not(eq(st.cmpA, st.cmpB))
				}
				c = vc.def("Bool", c)
				taken := st.clone()
				taken.cond = vc.def("Bool", and(st.cond, c))
				stack = append(stack, work{tgt, taken})
				st = st.clone()
				st.cond = vc.def("Bool", and(st.cond, not(c)))
			case "RET":
				rv, ok := st.regs["__ret"]
				if !ok {
					vc.fail("asm: RET without a store to ret+32(FP)")
				}
				vc.smoke("ret")
				result := scalar(vc.def(bvSort(16), "((_ extract 15 0) "+rv+")"))
				eargs := append(append([]SV{}, args...), result)
				for i, en := range fi.C.Ensures {
					g := vc.evalClause(en.GoName, fi.C.Pkg, eargs, vc.st, vc.entry)
					tag := ""
					if len(en.Tags) > 0 {
						tag = "[" + strings.Join(en.Tags, ",") + "]"
					}
					vc.oblige("ensures"+tag+":"+clauseLabel(en, i), en.Tags, g)
				}
				pc = -1
			default:
				vc.fail("asm: unknown mnemonic %s (line %d)", ins.op, ins.line)
			}
			if pc < 0 {
				break
			}
			pc++
		}
	}
	res.Obls = vc.obls
	res.Assumptions = vc.assumptions
	return res
}
