package main

// Contract files: comment-only Go files behind the build tag `verif` in /repo
// (contracts_verif.go per package).  Every line of interest starts with `//@`.
// This file parses them and generates, mechanically and in memory only, a Go
// file per package (added to the package through a go/packages overlay) that
// holds one pure Go function per clause.  The clause functions are type-checked
// by go/types together with the real package and evaluated symbolically by the
// same SSA evaluator that executes the real code.

import (
	"fmt"
	"go/token"
	"os"
	"regexp"
	"strconv"
	"strings"
)

type Clause struct {
	Kind   string // requires ensures invariant decreases
	Tags   []string
	Expr   string // source text (contract language)
	Label  string // optional label after tag: e.g. "distinct"
	Loop   int    // loop ordinal for loop clauses (1-based), 0 otherwise
	GoName string // generated function name
	Locals []string
	Line   int
}

type ModItem struct {
	Expr    string // path expression
	AllKind bool   // allmaps(path): the contents of every map of path's type
	All2    bool   // path[*][*]: the contents of every map stored in the map
	All     bool   // path[*]
	GoName  string
	Loop    int
}

type FuncContract struct {
	Arch     string // "" | "amd64" | "!amd64"
	Pkg      string // package dir key: ".", "z", "z/simd"
	Recv     string // receiver type name without * and type args ("" for functions)
	Name     string
	Header   string
	Requires []*Clause
	Ensures  []*Clause
	PanicsIf []*Clause // conditions (over the entry state) under which the function may panic
	Assumes  []*Clause // postconditions callers may assume but the body is not checked against (listed as assumptions)
	LoopInv  map[int][]*Clause
	LoopDec  map[int]*Clause
	LoopMod  map[int][]*ModItem
	LabelInv map[string][]*Clause
	Anchors  []*Anchor
	Modifies []*ModItem
	Attrs    map[string]string // trusted, inline, pure, atomic, constructor, holds, ...
	LockOf   *Clause           // expression naming the object whose lock makes this function atomic
	Ghost    []*GhostStmt
	Line     int
	File     string
}

// Anchor is an assertion placed just before the k-th call (source order) of a callee.
type Anchor struct {
	Callee string
	Ord    int
	C      *Clause
	Pos    token.Pos
}

// ChanInv: an invariant of every element travelling through channels of one element
// type; `open` says that the environment never closes such channels.
type ChanInv struct {
	Pkg     string
	Elem    string // element type as written, e.g. *Item[V]
	TParams string
	Param   string
	Expr    string
	Open    bool
	GoName  string
}

type GhostStmt struct {
	Anchor string // entry | return | after-call(name#k) | before-call(name#k)
	Stmt   string
	GoName string
}

type Spec struct {
	Opaque bool
	Pkg    string
	Name   string
	Params string
	Ret    string
	Expr   string
	Line   int
}

type Lemma struct {
	Reveal []string
	Uses   []string
	Pkg    string
	Name   string
	Params string
	Expr   string
	Tags   []string
	GoName string
	Line   int
}

type LockInv struct {
	Pkg     string
	Type    string // struct type name owning the mutex
	Mutex   string // field path of the mutex within the type ("" = embedded)
	Param   string // name used for the object in Expr
	Expr    string
	Tags    []string
	GoName  string
	Rely    string // two-state relation other goroutines respect on the guarded state (old = before the yield)
	RelyGo  string
	Guards  []*ModItem // locations guarded by the mutex (paths from the owner)
	TParams string
}

type ContractFile struct {
	Broken   map[string]string // contract key -> why it no longer matches the tree
	Pkg      string
	Path     string
	Imports  []string
	Specs    []*Spec
	Funcs    []*FuncContract
	Lemmas   []*Lemma
	LockInvs []*LockInv
	Decls    []string // raw Go declarations (ghost vars, helper types)
	ChanInvs []*ChanInv
	Ranks    map[string]int
	Shared   []string // locations accessed with sync/atomic by several goroutines: "Type.field" or "cell T"
}

func (fc *FuncContract) Key() string {
	if fc.Recv != "" {
		return fc.Pkg + ":" + fc.Recv + "." + fc.Name
	}
	return fc.Pkg + ":" + fc.Name
}

var reFuncHdr = regexp.MustCompile(`^func\s*(\(\s*(\w+\s+)?\*?(\w+)(\[[^\]]*\])?\s*\))?\s*(\w+)`)
var reTag = regexp.MustCompile(`^\[([A-Za-z0-9, ]+)\]\s*`)
var reLabel = regexp.MustCompile(`^#([A-Za-z0-9_.-]+)\s+`)

func parseTags(s string) ([]string, string, string) {
	var tags []string
	if m := reTag.FindStringSubmatch(s); m != nil {
		for _, t := range strings.Split(m[1], ",") {
			tags = append(tags, strings.TrimSpace(t))
		}
		s = s[len(m[0]):]
	}
	label := ""
	if m := reLabel.FindStringSubmatch(s); m != nil {
		label = m[1]
		s = s[len(m[0]):]
	}
	return tags, label, s
}

func parseContractFile(pkg, path string) (*ContractFile, error) {
	data, err := os.ReadFile(path)
	if err != nil {
		return nil, err
	}
	cf := &ContractFile{Pkg: pkg, Path: path}
	var cur *FuncContract
	var lastLemma *Lemma
	curArch := ""
	// join continuation lines: a line `//@ .. text` continues the previous one
	type ln struct {
		s string
		n int
	}
	var lines []ln
	for i, raw := range strings.Split(string(data), "\n") {
		t := strings.TrimSpace(raw)
		if !strings.HasPrefix(t, "//@") {
			continue
		}
		t = strings.TrimSpace(t[3:])
		if strings.HasPrefix(t, "..") && len(lines) > 0 {
			lines[len(lines)-1].s += " " + strings.TrimSpace(t[2:])
			continue
		}
		lines = append(lines, ln{t, i + 1})
	}
	for _, l := range lines {
		t := l.s
		word := t
		rest := ""
		if i := strings.IndexAny(t, " \t"); i >= 0 {
			word, rest = t[:i], strings.TrimSpace(t[i+1:])
		}
		errf := func(f string, a ...interface{}) error {
			return fmt.Errorf("%s:%d: %s", path, l.n, fmt.Sprintf(f, a...))
		}
		switch word {
		case "arch":
			curArch = rest
			if rest == "any" {
				curArch = ""
			}
		case "import":
			cf.Imports = append(cf.Imports, rest)
		case "decl":
			cf.Decls = append(cf.Decls, rest)
		case "spec":
			// spec name(params) ret = expr
			opaque := false
			if strings.HasPrefix(rest, "opaque ") {
				opaque = true
				rest = strings.TrimSpace(strings.TrimPrefix(rest, "opaque "))
			}
			eq := strings.Index(rest, " = ")
			if eq < 0 {
				return nil, errf("spec without ' = '")
			}
			head, expr := rest[:eq], rest[eq+3:]
			op := strings.Index(head, "(")
			cl := matchParen(head, op)
			if op < 0 || cl < 0 {
				return nil, errf("bad spec header")
			}
			cf.Specs = append(cf.Specs, &Spec{Opaque: opaque, Pkg: pkg, Name: strings.TrimSpace(head[:op]), Params: head[op+1 : cl],
				Ret: strings.TrimSpace(head[cl+1:]), Expr: expr, Line: l.n})
			cur = nil
		case "lemma":
			// lemma [tags] name(params): expr
			tags, _, r := parseTags(rest)
			op := strings.Index(r, "(")
			cl := matchParen(r, op)
			if op < 0 || cl < 0 || cl+1 >= len(r) || r[cl+1] != ':' {
				return nil, errf("bad lemma header")
			}
			lastLemma = &Lemma{Pkg: pkg, Name: strings.TrimSpace(r[:op]), Params: r[op+1 : cl],
				Expr: strings.TrimSpace(r[cl+2:]), Tags: tags, Line: l.n}
			cf.Lemmas = append(cf.Lemmas, lastLemma)
			cur = nil
		case "lockinv":
			// lockinv [tags] Type.mutexpath (name): expr   guards f1, f2 given by separate 'guards' line
			tags, _, r := parseTags(rest)
			colon := strings.Index(r, ":")
			if colon < 0 {
				return nil, errf("bad lockinv")
			}
			head := strings.TrimSpace(r[:colon])
			expr := strings.TrimSpace(r[colon+1:])
			// head: Type.mutex (x)
			op := strings.Index(head, "(")
			param := "self"
			if op >= 0 {
				param = strings.TrimSpace(strings.Trim(head[op:], "()"))
				head = strings.TrimSpace(head[:op])
			}
			tp, mu := head, ""
			if i := strings.Index(head, "."); i >= 0 {
				tp, mu = head[:i], head[i+1:]
			}
			cf.LockInvs = append(cf.LockInvs, &LockInv{Pkg: pkg, Type: tp, Mutex: mu, Param: param, Expr: expr, Tags: tags})
			cur = nil
		case "rely":
			// rely <expr>   -- belongs to the preceding lockinv
			if len(cf.LockInvs) == 0 {
				return nil, errf("rely without lockinv")
			}
			cf.LockInvs[len(cf.LockInvs)-1].Rely = rest
		case "guards":
			if len(cf.LockInvs) == 0 {
				return nil, errf("guards without lockinv")
			}
			li := cf.LockInvs[len(cf.LockInvs)-1]
			li.Guards = append(li.Guards, parseModItems(rest, 0)...)
		case "func":
			m := reFuncHdr.FindStringSubmatch(t)
			if m == nil {
				return nil, errf("bad func header %q", t)
			}
			lastLemma = nil
			cur = &FuncContract{Arch: curArch, Pkg: pkg, Recv: m[3], Name: m[5], Header: t, LoopInv: map[int][]*Clause{}, LabelInv: map[string][]*Clause{},
				LoopDec: map[int]*Clause{}, LoopMod: map[int][]*ModItem{}, Attrs: map[string]string{}, Line: l.n, File: path}
			cf.Funcs = append(cf.Funcs, cur)
		case "chaninv":
			// chaninv [open] [TParams] ElemType (x): expr      e.g.  chaninv open [V any] *Item[V] (i): i != nil
			r := rest
			ci := &ChanInv{Pkg: pkg}
			if strings.HasPrefix(r, "open ") {
				ci.Open = true
				r = strings.TrimSpace(r[5:])
			}
			if strings.HasPrefix(r, "[") {
				j := matchParen(r, 0)
				ci.TParams = r[:j+1]
				r = strings.TrimSpace(r[j+1:])
			}
			op := strings.Index(r, "(")
			cl := matchParen(r, op)
			if op < 0 || cl < 0 || cl+1 >= len(r) || r[cl+1] != ':' {
				return nil, errf("bad chaninv")
			}
			ci.Elem = strings.TrimSpace(r[:op])
			ci.Param = strings.TrimSpace(r[op+1 : cl])
			ci.Expr = strings.TrimSpace(r[cl+2:])
			cf.ChanInvs = append(cf.ChanInvs, ci)
		case "rank":
			f := strings.Fields(rest)
			if len(f) != 2 {
				return nil, errf("bad rank (want: rank <Type> <n>)")
			}
			n, err := strconv.Atoi(f[1])
			if err != nil {
				return nil, errf("bad rank number")
			}
			if cf.Ranks == nil {
				cf.Ranks = map[string]int{}
			}
			cf.Ranks[f[0]] = n
		case "shared":
			cf.Shared = append(cf.Shared, rest)
		case "requires", "ensures", "assumes", "panics_if":
			if cur == nil {
				return nil, errf("%s outside func", word)
			}
			tags, label, e := parseTags(rest)
			c := &Clause{Kind: word, Tags: tags, Label: label, Expr: e, Line: l.n}
			switch word {
			case "requires":
				cur.Requires = append(cur.Requires, c)
			case "ensures":
				cur.Ensures = append(cur.Ensures, c)
			case "panics_if":
				cur.PanicsIf = append(cur.PanicsIf, c)
			default:
				cur.Assumes = append(cur.Assumes, c)
			}
		case "modifies":
			if cur == nil {
				return nil, errf("modifies outside func")
			}
			cur.Modifies = append(cur.Modifies, parseModItems(rest, 0)...)
			if _, ok := cur.Attrs["hasmodifies"]; !ok {
				cur.Attrs["hasmodifies"] = "1"
			}
		case "loop":
			if cur == nil {
				return nil, errf("loop outside func")
			}
			f := strings.Fields(rest)
			if len(f) < 2 {
				return nil, errf("bad loop clause")
			}
			k, err := strconv.Atoi(f[0])
			if err != nil {
				return nil, errf("bad loop ordinal")
			}
			body := strings.TrimSpace(strings.TrimPrefix(strings.TrimSpace(rest[len(f[0]):]), f[1]))
			switch f[1] {
			case "invariant":
				tags, label, e := parseTags(body)
				cur.LoopInv[k] = append(cur.LoopInv[k], &Clause{Kind: "invariant", Tags: tags, Label: label, Expr: e, Loop: k, Line: l.n})
			case "decreases":
				cur.LoopDec[k] = &Clause{Kind: "decreases", Expr: body, Loop: k, Line: l.n}
			case "modifies":
				if cur.LoopMod[k] == nil {
					cur.LoopMod[k] = []*ModItem{}
				}
				cur.LoopMod[k] = append(cur.LoopMod[k], parseModItems(body, k)...)
			default:
				return nil, errf("bad loop clause kind %q", f[1])
			}
		case "lockof":
			if cur == nil {
				return nil, errf("lockof outside func")
			}
			cur.LockOf = &Clause{Kind: "lockof", Expr: rest, Line: l.n}
		case "at":
			// at call <callee>#k assert [tags] #label expr
			if cur == nil {
				return nil, errf("at outside func")
			}
			f := strings.Fields(rest)
			if len(f) == 4 && f[0] == "call" && f[2] == "mark" {
				// at call <callee>#k mark <label>: snapshot of the state just before that call,
				// readable later in this function's clauses as oldat("label", expr)
				callee, ord := f[1], 1
				if i := strings.Index(callee, "#"); i >= 0 {
					ord, _ = strconv.Atoi(callee[i+1:])
					callee = callee[:i]
				}
				cur.Anchors = append(cur.Anchors, &Anchor{Callee: callee, Ord: ord, C: &Clause{Kind: "mark", Label: f[3], Expr: "true", Line: l.n}})
				break
			}
			if len(f) < 4 || f[0] != "call" || (f[2] != "assert" && f[2] != "assume") {
				return nil, errf("bad anchor clause (want: at call <callee>#k assert|assume expr, or at call <callee>#k mark label)")
			}
			callee, ord := f[1], 1
			if i := strings.Index(callee, "#"); i >= 0 {
				ord, _ = strconv.Atoi(callee[i+1:])
				callee = callee[:i]
			}
			body := strings.TrimSpace(rest[strings.Index(rest, " "+f[2]+" ")+len(f[2])+2:])
			tags, label, e := parseTags(body)
			cur.Anchors = append(cur.Anchors, &Anchor{Callee: callee, Ord: ord, C: &Clause{Kind: f[2], Tags: tags, Label: label, Expr: e, Line: l.n}})
		case "label":
			// label <name> invariant [tags] expr   (assembly functions)
			if cur == nil {
				return nil, errf("label outside func")
			}
			f := strings.Fields(rest)
			if len(f) < 3 || f[1] != "invariant" {
				return nil, errf("bad label clause")
			}
			body := strings.TrimSpace(strings.TrimPrefix(strings.TrimSpace(rest[len(f[0]):]), "invariant"))
			tags, label, e := parseTags(body)
			cur.LabelInv[f[0]] = append(cur.LabelInv[f[0]], &Clause{Kind: "invariant", Tags: tags, Label: label, Expr: e, Line: l.n})
		case "ghost":
			// ghost <anchor>: stmt
			if cur == nil {
				return nil, errf("ghost outside func")
			}
			colon := strings.Index(rest, ":")
			if colon < 0 {
				return nil, errf("bad ghost")
			}
			cur.Ghost = append(cur.Ghost, &GhostStmt{Anchor: strings.TrimSpace(rest[:colon]), Stmt: strings.TrimSpace(rest[colon+1:])})
		case "reveal", "uses", "hide":
			var items []string
			for _, it := range strings.Split(rest, ",") {
				if it = strings.TrimSpace(it); it != "" {
					items = append(items, it)
				}
			}
			if cur == nil {
				if lastLemma == nil {
					return nil, errf("%s outside func or lemma", word)
				}
				if word == "reveal" {
					lastLemma.Reveal = append(lastLemma.Reveal, items...)
				} else if word == "hide" {
				} else {
					lastLemma.Uses = append(lastLemma.Uses, items...)
				}
				break
			}
			if old, ok := cur.Attrs[word]; ok {
				cur.Attrs[word] = old + "," + strings.Join(items, ",")
			} else {
				cur.Attrs[word] = strings.Join(items, ",")
			}
		case "infeasible":
			// infeasible <smoke point> <reason>: a program point that the sequential model cannot
			// reach (e.g. the branch taken only when another goroutine moved a shared counter)
			if cur == nil {
				return nil, errf("%s outside func", word)
			}
			f := strings.Fields(rest)
			if len(f) > 0 {
				if cur.Attrs["infeasible"] != "" {
					cur.Attrs["infeasible"] += ","
				}
				cur.Attrs["infeasible"] += f[0]
				cur.Attrs["infeasible:"+f[0]] = strings.TrimSpace(strings.TrimPrefix(rest, f[0]))
			}
		case "trusted", "inline", "pure", "atomic", "constructor", "nopanic", "holds", "noframe", "unfold", "callback", "bind", "yields", "assume_entry", "thread", "asm", "property", "paths":
			if cur == nil {
				return nil, errf("%s outside func", word)
			}
			if rest == "" {
				rest = "1"
			}
			if old, ok := cur.Attrs[word]; ok && (word == "bind" || word == "holds") {
				rest = old + ";" + rest
			}
			cur.Attrs[word] = rest
		default:
			return nil, errf("unknown contract keyword %q", word)
		}
	}
	return cf, nil
}

func parseModItems(s string, loop int) []*ModItem {
	var out []*ModItem
	for _, it := range splitTop(s, ',') {
		it = strings.TrimSpace(it)
		if it == "" || it == "nothing" {
			continue
		}
		m := &ModItem{Expr: it, Loop: loop}
		if strings.HasSuffix(it, "[*][*]") {
			m.All, m.All2 = true, true
			m.Expr = strings.TrimSuffix(it, "[*][*]")
		} else if strings.HasSuffix(it, "[*]") {
			m.All = true
			m.Expr = strings.TrimSuffix(it, "[*]")
		} else if strings.HasPrefix(it, "allmaps(") {
			m.All, m.AllKind = true, true
			m.Expr = strings.TrimSuffix(strings.TrimPrefix(it, "allmaps("), ")")
		} else if strings.HasPrefix(it, "gcCallbacks(") {
			m.All = true
			m.Expr = it
		} else if strings.HasPrefix(it, "gcChan(") {
			m.All = true
			m.Expr = strings.TrimSuffix(strings.TrimPrefix(it, "gcChan("), ")")
		}
		out = append(out, m)
	}
	return out
}

func matchParen(s string, open int) int {
	if open < 0 || open >= len(s) {
		return -1
	}
	depth := 0
	for i := open; i < len(s); i++ {
		switch s[i] {
		case '(', '[', '{':
			depth++
		case ')', ']', '}':
			depth--
			if depth == 0 {
				return i
			}
		}
	}
	return -1
}

// splitTop splits s at separator sep occurring at bracket depth 0.
func splitTop(s string, sep byte) []string {
	var out []string
	depth, start := 0, 0
	for i := 0; i < len(s); i++ {
		switch s[i] {
		case '(', '[', '{':
			depth++
		case ')', ']', '}':
			depth--
		default:
			if s[i] == sep && depth == 0 {
				out = append(out, s[start:i])
				start = i + 1
			}
		}
	}
	return append(out, s[start:])
}

// rewriteExpr turns the contract expression language into plain Go:
//
//	forall x T :: e      -> gcForall(func(x T) bool { return e })
//	exists x T :: e      -> gcExists(func(x T) bool { return e })
//	a ==> b              -> gcImplies(a, b)        (lowest precedence, right assoc)
//	a <==> b             -> (a) == (b)
//	old(e)               -> gcOld(e)
//	ite(c, a, b)         -> gcIte(c, a, b)
//
// Everything else is Go and is type-checked by go/types.
func rewriteExpr(s string) string {
	s = strings.TrimSpace(s)
	// strip redundant outer parens handled recursively through rewriteInner
	return rewriteTop(s)
}

func rewriteTop(s string) string {
	s = strings.TrimSpace(s)
	// position of the first top-level quantifier and of the first top-level ==> / <==>
	qpos, qword := -1, ""
	for _, q := range []string{"forall", "exists"} {
		from := 0
		for {
			i := indexTop(s[from:], q+" ")
			if i < 0 {
				break
			}
			i += from
			if i == 0 || !isIdentChar(s[i-1]) {
				if qpos < 0 || i < qpos {
					qpos, qword = i, q
				}
				break
			}
			from = i + 1
		}
	}
	ipos := indexTop(s, "==>")
	epos := indexTop(s, "<==>")
	if epos >= 0 && (qpos < 0 || epos < qpos) && (ipos < 0 || epos < ipos) {
		return "((" + rewriteTop(s[:epos]) + ") == (" + rewriteTop(s[epos+4:]) + "))"
	}
	if ipos >= 0 && (qpos < 0 || ipos < qpos) {
		return "gcImplies(" + rewriteTop(s[:ipos]) + ", " + rewriteTop(s[ipos+3:]) + ")"
	}
	if qpos > 0 {
		return rewriteInner(s[:qpos]) + rewriteTop(s[qpos:])
	}
	if qpos == 0 {
		q := qword
		i := indexTop(s, "::")
		if i < 0 {
			panic("quantifier without '::' in " + s)
		}
		binder := strings.TrimSpace(s[len(q):i])
		body := rewriteTop(s[i+2:])
		fn := "gcForall"
		if q == "exists" {
			fn = "gcExists"
		}
		// binder: Go parameter-list syntax: "x T", "x, y T", "i int, y uint64"
		pieces := splitTop(binder, ',')
		type bv struct{ name, typ string }
		var bvs []bv
		cur := ""
		for k := len(pieces) - 1; k >= 0; k-- {
			pc := strings.TrimSpace(pieces[k])
			if sp := strings.Index(pc, " "); sp >= 0 {
				cur = strings.TrimSpace(pc[sp+1:])
				pc = pc[:sp]
			}
			if cur == "" {
				panic("quantifier binder without type in " + s)
			}
			bvs = append([]bv{{pc, cur}}, bvs...)
		}
		out := body
		for k := len(bvs) - 1; k >= 0; k-- {
			out = fmt.Sprintf("%s(func(%s %s) bool { return %s })", fn, bvs[k].name, bvs[k].typ, out)
		}
		return out
	}
	return rewriteInner(s)
}

// indexTop finds tok at bracket depth 0 (first occurrence), skipping string literals.
func indexTop(s, tok string) int {
	depth := 0
	for i := 0; i < len(s); i++ {
		switch s[i] {
		case '"':
			j := i + 1
			for j < len(s) && s[j] != '"' {
				if s[j] == '\\' {
					j++
				}
				j++
			}
			i = j
		case '(', '[', '{':
			depth++
		case ')', ']', '}':
			depth--
		default:
			if depth == 0 && strings.HasPrefix(s[i:], tok) {
				// do not match "==>" inside "<==>"
				if tok == "==>" && i > 0 && s[i-1] == '<' {
					continue
				}
				return i
			}
		}
	}
	return -1
}

// rewriteInner rewrites bracketed sub-expressions recursively and renames the
// built-ins old/ite.
func rewriteInner(s string) string {
	var b strings.Builder
	i := 0
	for i < len(s) {
		c := s[i]
		if c == '"' {
			j := i + 1
			for j < len(s) && s[j] != '"' {
				if s[j] == '\\' {
					j++
				}
				j++
			}
			b.WriteString(s[i:min(j+1, len(s))])
			i = j + 1
			continue
		}
		if c == '(' || c == '[' || c == '{' {
			j := matchParen(s, i)
			if j < 0 {
				panic("unbalanced brackets in " + s)
			}
			inner := s[i+1 : j]
			b.WriteByte(c)
			if ti := strings.TrimSpace(inner); c == '(' && (strings.HasPrefix(ti, "forall ") || strings.HasPrefix(ti, "exists ")) {
				b.WriteString(rewriteTop(inner))
			} else if c == '(' || c == '[' {
				parts := splitTop(inner, ',')
				for k, p := range parts {
					if k > 0 {
						b.WriteString(",")
					}
					if c == '[' {
						// slices a[i:j]: split on ':' at top level
						sub := splitTop(p, ':')
						for q, sp := range sub {
							if q > 0 {
								b.WriteString(":")
							}
							if strings.TrimSpace(sp) != "" {
								b.WriteString(rewriteTop(sp))
							}
						}
					} else if strings.TrimSpace(p) != "" {
						b.WriteString(rewriteTop(p))
					}
				}
			} else {
				b.WriteString(inner)
			}
			b.WriteByte(s[j])
			i = j + 1
			continue
		}
		if isIdentStart(c) {
			j := i
			for j < len(s) && isIdentChar(s[j]) {
				j++
			}
			id := s[i:j]
			prevDot := i > 0 && s[i-1] == '.'
			if !prevDot && j < len(s) && s[j] == '(' {
				switch id {
				case "old":
					id = "gcOld"
				case "oldat":
					id = "gcOldAt"
				case "ite":
					id = "gcIte"
				}
			}
			b.WriteString(id)
			i = j
			continue
		}
		b.WriteByte(c)
		i++
	}
	return b.String()
}

func isIdentStart(c byte) bool {
	return c == '_' || (c >= 'a' && c <= 'z') || (c >= 'A' && c <= 'Z')
}
func isIdentChar(c byte) bool { return isIdentStart(c) || (c >= '0' && c <= '9') }

const gcPrelude = `
// ---- contract prelude (generated; never written to disk) ----
var _ = time.Now
// gcNow is the most recent reading of the clock in the current call.
func gcNow() time.Time { return time.Time{} }
func gcOld[T any](x T) T { return x }
func gcOldAt[T any](label string, x T) T { return x }
func gcIte[T any](c bool, a, b T) T { if c { return a }; return b }
func gcImplies(a, b bool) bool { return !a || b }
func gcForall[T any](f func(T) bool) bool { var z T; return f(z) }
func gcExists[T any](f func(T) bool) bool { var z T; return f(z) }
func gcAllocated[T any](x T) bool { return true }
func gcFresh[T any](x T) bool { return true }
func gcSameRef[T any](a, b T) bool { return false }
// gcSliceAt: a is the window of b's storage that starts at element lo of b
func gcSliceAt[T any](a, b []T, lo int) bool { return false }
// channel ghost state: producer index, consumer index, element at a position, flags
func gcTail[T any](ch chan T) int { return 0 }
func gcHead[T any](ch chan T) int { return 0 }
func gcAt[T any](ch chan T, pos int) T { var z T; return z }
func gcClosed[T any](ch chan T) bool { return false }
func gcAwaited[T any](ch chan T) bool { return false }
func gcCap[T any](ch chan T) int { return cap(ch) }
func gcChan[T any](ch chan T) any { return ch }
// callbacks: how often a function value has been called (in total / with a first argument)
func gcCalls[F any](f F) int { return 0 }
func gcCalledWith[F any, A any](f F, a A) int { return 0 }
func gcCallbacks(f any) any { return f }
func gcFst[A, B any](a A, b B) A { return a }
func gcSnd[A, B any](a A, b B) B { return b }
func gcSum[K comparable](m map[K]int64) int64 { var s int64; for _, v := range m { s += v }; return s }
func gcCard[K comparable, V any](m map[K]V) int { return len(m) }
func gcHas[K comparable, V any](m map[K]V, k K) bool { _, ok := m[k]; return ok }
func gcSameArray[T any](a, b []T) bool { return len(a) > 0 && len(b) > 0 && &a[0] == &b[0] }
func gcSameStorage[T any](a, b []T) bool { return false }
func gcWithin[T any](a, b []T) bool { return false }
// gcU64: the []uint64 view of the storage of a byte slice (what z.BytesToUint64Slice constructs)
func gcU64(b []byte) []uint64 { return nil }
func gcWfSlice[T any](a []T) bool { return true }
// ---- end of contract prelude ----
`
