package main

import (
	"fmt"
	"go/token"
	"go/types"
	"strings"

	"golang.org/x/tools/go/ssa"
)

// stdIntrinsic gives built-in (trusted) models to library functions.  Every
// model used is recorded in vc.assumptions and ends up in the evidence file.
func (vc *VC) stdIntrinsic(fr *Frame, fn *ssa.Function, name string, args []SV, pos token.Pos) ([]SV, bool) {
	note := func(s string) { vc.noteAssumption("library model: " + s) }
	switch name {
	// ---- sync ----
	case "(*sync.Mutex).Lock", "(*sync.RWMutex).Lock":
		vc.lockOp(fr, args[0], 1, true, pos)
		return nil, true
	case "(*sync.Mutex).Unlock", "(*sync.RWMutex).Unlock":
		vc.lockOp(fr, args[0], 1, false, pos)
		return nil, true
	case "(*sync.RWMutex).RLock":
		vc.lockOp(fr, args[0], 2, true, pos)
		return nil, true
	case "(*sync.RWMutex).RUnlock":
		vc.lockOp(fr, args[0], 2, false, pos)
		return nil, true
	case "(*sync.Pool).Get":
		note("sync.Pool.Get returns an object owned exclusively by the caller until Put")
		r := vc.fresh("Int", "poolobj")
		vc.assume(fmt.Sprintf("(and (< 0 %s) (<= %s %s))", r, r, vc.st.Alloc))
		return []SV{scalar(r)}, true
	case "(*sync.Pool).Put":
		return nil, true
	case "(*sync.WaitGroup).Add", "(*sync.WaitGroup).Done", "(*sync.WaitGroup).Wait":
		return nil, true
	// ---- sync/atomic ----
	case "sync/atomic.AddUint64", "sync/atomic.AddInt64", "sync/atomic.AddInt32", "sync/atomic.AddUint32":
		lv := vc.lvalOfSV(args[0], fn.Signature.Params().At(0).Type())
		vc.nilCheck(lv, "atomic")
		if vc.isShared(lv) {
			// a cell shared between goroutines: the result is whatever the interleaving gives
			return []SV{vc.freshValue(lv.Typ, "atomic")}, true
		}
		cur := vc.load(lv)
		nv := vc.def(vc.eng.layoutOf(lv.Typ).L[0].Sort, "(bvadd "+cur.L[0]+" "+args[1].L[0]+")")
		vc.store(lv, scalar(nv))
		return []SV{scalar(nv)}, true
	case "sync/atomic.LoadUint64", "sync/atomic.LoadInt64", "sync/atomic.LoadInt32", "sync/atomic.LoadUint32":
		lv := vc.lvalOfSV(args[0], fn.Signature.Params().At(0).Type())
		vc.nilCheck(lv, "atomic")
		if vc.isShared(lv) {
			return []SV{vc.freshValue(lv.Typ, "atomic")}, true
		}
		return []SV{vc.load(lv)}, true
	case "sync/atomic.StoreUint64", "sync/atomic.StoreInt64", "sync/atomic.StoreInt32", "sync/atomic.StoreUint32":
		lv := vc.lvalOfSV(args[0], fn.Signature.Params().At(0).Type())
		vc.nilCheck(lv, "atomic")
		if vc.isShared(lv) {
			return nil, true
		}
		vc.store(lv, args[1])
		return nil, true
	case "(*sync/atomic.Bool).Load":
		lv := vc.lvalOfSV(args[0], fn.Signature.Recv().Type())
		if vc.isShared(lv) {
			return []SV{vc.freshValue(lv.Typ, "atomic")}, true
		}
		return []SV{vc.load(lv)}, true
	case "(*sync/atomic.Bool).Store":
		lv := vc.lvalOfSV(args[0], fn.Signature.Recv().Type())
		if vc.isShared(lv) {
			return nil, true
		}
		vc.store(lv, args[1])
		return nil, true
	// ---- time ----
	case "time.Now":
		note("time.Now is monotone: every reading is >= all earlier readings of the same execution and > 0")
		t := vc.fresh("Real", "now")
		prev := vc.st.Ghost["now"]
		if prev == "" {
			prev = "1.0"
		}
		vc.assume("(>= " + t + " " + prev + ")")
		vc.st.Ghost["now"] = t
		return []SV{scalar(t)}, true
	case "(time.Time).IsZero":
		return []SV{scalar(eq(args[0].L[0], "0.0"))}, true
	case "(time.Time).After":
		return []SV{scalar("(> " + args[0].L[0] + " " + args[1].L[0] + ")")}, true
	case "(time.Time).Before":
		return []SV{scalar("(< " + args[0].L[0] + " " + args[1].L[0] + ")")}, true
	case "(time.Time).Equal":
		return []SV{scalar(eq(args[0].L[0], args[1].L[0]))}, true
	case "(time.Time).Add":
		note("time.Time.Add(d) is t + d seconds for an uninterpreted, strictly monotone embedding of durations")
		vc.declareUF("dursec", "((_ BitVec 64)) Real")
		vc.needDurAxioms()
		return []SV{scalar("(+ " + args[0].L[0] + " (dursec " + args[1].L[0] + "))")}, true
	case "(time.Time).Sub":
		vc.declareUF("secdur", "(Real) (_ BitVec 64)")
		vc.needDurAxioms()
		return []SV{scalar("(secdur (- " + args[0].L[0] + " " + args[1].L[0] + "))")}, true
	case "time.Until":
		t := vc.fresh("Real", "now")
		prev := vc.st.Ghost["now"]
		if prev == "" {
			prev = "1.0"
		}
		vc.assume("(>= " + t + " " + prev + ")")
		vc.st.Ghost["now"] = t
		vc.declareUF("secdur", "(Real) (_ BitVec 64)")
		vc.needDurAxioms()
		return []SV{scalar("(secdur (- " + args[0].L[0] + " " + t + "))")}, true
	case "time.Since":
		t := vc.fresh("Real", "now")
		prev := vc.st.Ghost["now"]
		if prev == "" {
			prev = "1.0"
		}
		vc.assume("(>= " + t + " " + prev + ")")
		vc.st.Ghost["now"] = t
		vc.declareUF("secdur", "(Real) (_ BitVec 64)")
		vc.needDurAxioms()
		return []SV{scalar("(secdur (- " + t + " " + args[0].L[0] + "))")}, true
	case "(time.Time).Unix":
		note("time.Time.Unix is a monotone function of the instant")
		vc.declareUF("unixsec", "(Real) (_ BitVec 64)")
		if !vc.declared["ax:unixsec"] {
			vc.declared["ax:unixsec"] = true
			vc.decls = append(vc.decls, "(assert (forall ((a Real) (b Real)) (! (=> (<= a b) (bvsle (unixsec a) (unixsec b))) :pattern ((unixsec a) (unixsec b)))))",
				"(assert (forall ((a Real)) (! (and (bvslt (bvneg (_ bv4611686018427387904 64)) (unixsec a)) (bvslt (unixsec a) (_ bv4611686018427387904 64))) :pattern ((unixsec a)))))")
			vc.noteAssumption("library model: Unix seconds of every instant lie within +-2^62 (no overflow in bucket arithmetic)")
		}
		return []SV{scalar("(unixsec " + args[0].L[0] + ")")}, true
	case "time.Unix":
		note("time.Unix(sec, nsec) is the instant nsec nanoseconds into second sec; instants are ordered consistently with their Unix seconds")
		vc.declareUF("unixsec", "(Real) (_ BitVec 64)")
		if !vc.declared["ax:unixsec"] {
			vc.declared["ax:unixsec"] = true
			vc.decls = append(vc.decls, "(assert (forall ((a Real) (b Real)) (! (=> (<= a b) (bvsle (unixsec a) (unixsec b))) :pattern ((unixsec a) (unixsec b)))))",
				"(assert (forall ((a Real)) (! (and (bvslt (bvneg (_ bv4611686018427387904 64)) (unixsec a)) (bvslt (unixsec a) (_ bv4611686018427387904 64))) :pattern ((unixsec a)))))")
			vc.noteAssumption("library model: Unix seconds of every instant lie within +-2^62 (no overflow in bucket arithmetic)")
		}
		t := vc.fresh("Real", "unixt")
		sec, nsec := args[0].L[0], args[1].L[0]
		inRange := and("(bvsle (_ bv0 64) "+nsec+")", "(bvslt "+nsec+" (_ bv1000000000 64))", "(bvslt (bvneg (_ bv4611686018427387904 64)) "+sec+")", "(bvslt "+sec+" (_ bv4611686018427387904 64))")
		vc.assume(implies(inRange, and(eq("(unixsec "+t+")", sec), "(> "+t+" 0.0)")))
		vc.assume(implies(inRange, "(forall ((a!q Real)) (! (and (=> (bvslt (unixsec a!q) "+sec+") (< a!q "+t+")) (=> (bvsgt (unixsec a!q) "+sec+") (> a!q "+t+")) (=> (and (= (unixsec a!q) "+sec+") (= "+nsec+" (_ bv0 64))) (>= a!q "+t+"))) :pattern ((unixsec a!q))))"))
		return []SV{scalar(t)}, true
	case "(time.Duration).Nanoseconds":
		return []SV{args[0]}, true
	case "(time.Time).UnixNano":
		vc.declareUF("unixnano", "(Real) (_ BitVec 64)")
		return []SV{scalar("(unixnano " + args[0].L[0] + ")")}, true
	case "time.NewTicker":
		return []SV{scalar(vc.newRef("ticker"))}, true
	case "(*time.Ticker).Stop":
		return nil, true
	// ---- logging / formatting: no effect on verified state ----
	case "log.Fatal", "log.Fatalf", "log.Panicf", "os.Exit":
		vc.panicReached(fr, strings.ReplaceAll(name, ".", "_"))
		return nil, true
	case "fmt.Sprintf", "fmt.Sprint", "fmt.Errorf", "errors.New", "errors.Join", "fmt.Println", "fmt.Printf", "fmt.Fprintf":
		res := fn.Signature.Results()
		var out []SV
		for i := 0; i < res.Len(); i++ {
			v := vc.freshValue(res.At(i).Type(), "fmt")
			out = append(out, v)
		}
		return out, true
	case "math/rand.New", "math/rand.NewSource":
		return []SV{scalar(vc.newRef("rand"))}, true
	case "(*math/rand.Rand).Uint64":
		return []SV{scalar(vc.fresh(bvSort(64), "rand"))}, true
	case "math/rand.Int63n":
		r := vc.fresh(bvSort(64), "rand")
		vc.assume(and("(bvsle (_ bv0 64) "+r+")", "(bvslt "+r+" "+args[0].L[0]+")"))
		return []SV{scalar(r)}, true
	case "math/bits.OnesCount64":
		vc.declareUF("popcount64", "((_ BitVec 64)) (_ BitVec 64)")
		x := args[0].L[0]
		r := "(popcount64 " + x + ")"
		// what callers use: the count is 0 exactly for 0 and 1 exactly for powers of two
		vc.assume(and("(bvule "+r+" (_ bv64 64))",
			"(= (= "+r+" (_ bv0 64)) (= "+x+" (_ bv0 64)))",
			"(= (= "+r+" (_ bv1 64)) (and (not (= "+x+" (_ bv0 64))) (= (bvand "+x+" (bvsub "+x+" (_ bv1 64))) (_ bv0 64))))"))
		return []SV{scalar(r)}, true
	case "math.Log2", "math.Log", "math.Pow", "math.Ceil":
		f := quoteSym("fn:" + name)
		var sig []string
		var as []string
		for _, a := range args {
			sig = append(sig, "F64")
			as = append(as, a.L[0])
		}
		vc.declareUF(f, "("+strings.Join(sig, " ")+") F64")
		return []SV{scalar("(" + f + " " + strings.Join(as, " ") + ")")}, true
	case "(encoding/binary.bigEndian).Uint64":
		return []SV{vc.beUint64(fr, args[1], false, SV{})}, true
	case "(encoding/binary.bigEndian).PutUint64":
		vc.beUint64(fr, args[1], true, args[2])
		return nil, true
	case "os.CreateTemp", "os.OpenFile":
		note("the operating system does not fail: " + name + " returns a file and a nil error")
		return []SV{scalar(vc.newRef("file")), scalar("0")}, true
	case "(*os.File).Name":
		return []SV{vc.freshValue(fn.Signature.Results().At(0).Type(), "fname")}, true
	case "os.Remove":
		return []SV{scalar("0")}, true
	case "os.Getpagesize":
		return []SV{scalar(vc.fresh(bvSort(64), "pagesize"))}, true
	}
	switch {
	case strings.HasPrefix(name, "github.com/dgraph-io/ristretto/v2/z.memclrNoHeapPointers"):
		vc.fail("memclrNoHeapPointers reached directly; use the contract of z.Memclr")
	}
	return nil, false
}

func (vc *VC) needDurAxioms() {
	if vc.declared["ax:dur"] {
		return
	}
	vc.declared["ax:dur"] = true
	vc.declareUF("dursec", "((_ BitVec 64)) Real")
	vc.declareUF("secdur", "(Real) (_ BitVec 64)")
	vc.decls = append(vc.decls,
		"(assert (= (dursec (_ bv0 64)) 0.0))",
		"(assert (forall ((a (_ BitVec 64)) (b (_ BitVec 64))) (! (=> (bvslt a b) (< (dursec a) (dursec b))) :pattern ((dursec a) (dursec b)))))",
		"(assert (forall ((a (_ BitVec 64))) (! (= (secdur (dursec a)) a) :pattern ((dursec a)))))",
		"(assert (forall ((x Real) (y Real)) (! (=> (<= x y) (bvsle (secdur x) (secdur y))) :pattern ((secdur x) (secdur y)))))",
	)
	vc.noteAssumption("library model: durations embed into instants by a strictly monotone function (dursec) with inverse secdur")
}

func (vc *VC) noteAssumption(s string) {
	for _, a := range vc.assumptions {
		if a == s {
			return
		}
	}
	vc.assumptions = append(vc.assumptions, s)
}

// beUint64 models binary.BigEndian.Uint64 / PutUint64 on a byte slice.
func (vc *VC) beUint64(fr *Frame, b SV, put bool, v SV) SV {
	vc.oblige("index:bigendian", []string{"aux"}, "(bvsle (_ bv8 64) "+b.L[2]+")")
	byteT := types.Typ[types.Uint8]
	tk := typeKey(byteT)
	vc.eng.tkTypes[tk] = byteT
	name := elemHeapName(tk, 0)
	sort := "(Array Int (Array (_ BitVec 64) (_ BitVec 8)))"
	h := vc.heapGet(name, sort)
	arr := vc.def("(Array (_ BitVec 64) (_ BitVec 8))", sel(h, b.L[0]))
	at := func(k int) string { return vc.ix(b.L[1], fmt.Sprintf("(_ bv%d 64)", k)) }
	if !put {
		t := "(concat"
		for k := 0; k < 8; k++ {
			t += " " + sel(arr, at(k))
		}
		t += ")"
		return scalar(vc.def(bvSort(64), t))
	}
	vc.frameCheck(Loc{Space: 'E', TK: tk, Ref: b.L[0], WinLo: b.L[1], WinLen: "(_ bv8 64)"}, "bigendian")
	na := arr
	for k := 0; k < 8; k++ {
		hi := 63 - 8*k
		na = sto(na, at(k), fmt.Sprintf("((_ extract %d %d) %s)", hi, hi-7, v.L[0]))
	}
	vc.heapSet(name, sort, sto(h, b.L[0], na))
	return SV{}
}
