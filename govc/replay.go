package main

import (
	"encoding/json"
	"fmt"
	"os"
	"path/filepath"
)

// makeReplay turns a refuted obligation into a replay file.  It returns the path
// and whether the counterexample was reproduced against the real code.
func makeReplay(e *Engine, verif, prop string, r *FuncResult, o *Obl) (string, bool) {
	dir := replayDir(verif)
	os.MkdirAll(dir, 0o755)
	p := filepath.Join(dir, prop+"-"+sanitize(shortObl(o.Name))+".json")
	rec := map[string]interface{}{
		"property": prop, "obligation": shortObl(o.Name), "status": o.Status,
		"function": shortObl(r.Fn), "solver": o.Backend, "solver_output": o.Output,
		"model": parseModel(o.Model),
	}
	reproduced := false
	if rp := buildGoReplay(e, verif, prop, r, o, rec); rp != nil {
		reproduced = rp.run(rec)
	}
	rec["reproduced_on_real_code"] = reproduced
	js, _ := json.MarshalIndent(rec, "", " ")
	os.WriteFile(p, js, 0o644)
	return p, reproduced
}

func replayFile(repo, verif, path string) error {
	data, err := os.ReadFile(path)
	if err != nil {
		return err
	}
	var rec map[string]interface{}
	if err := json.Unmarshal(data, &rec); err != nil {
		return err
	}
	fmt.Printf("obligation: %v\nfunction:   %v\nstatus:     %v\n", rec["obligation"], rec["function"], rec["status"])
	if _, ok := rec["bounded_case"]; ok {
		out, failed := replayBounded(repo, rec)
		fmt.Println(lastLines(out, 8))
		if failed {
			fmt.Println("replay: the real code diverges from the reference model on this operation sequence")
			os.Exit(1)
		}
		fmt.Println("replay: not reproduced on the current tree")
		return nil
	}
	if t, ok := rec["go_test"].(string); ok && t != "" {
		out, failed := runGoReplay(repo, verif, rec)
		fmt.Println(out)
		if failed {
			fmt.Println("replay: the real code violates the obligation on this input")
			os.Exit(1)
		}
		fmt.Println("replay: not reproduced on the current tree")
		return nil
	}
	fmt.Printf("no executable replay; solver output:\n%v\n", rec["solver_output"])
	return nil
}

// replayDir is where replay files go: /verif/replay, or GOVC_REPLAY_DIR (self-tests on scratch trees).
func replayDir(verif string) string {
	if d := os.Getenv("GOVC_REPLAY_DIR"); d != "" {
		return d
	}
	return filepath.Join(verif, "replay")
}
