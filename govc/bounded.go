package main

// Bounded stand-ins.  For code the contracts do not reach (the tree layer of z.Tree, the
// sorter and iterators of z.Buffer, reopening a persistent tree) a property's check
// additionally runs a driver: an in-package Go test from /verif/bounded/<Cnn>_*_test.go,
// injected with `go test -overlay`, that exercises the real code on bounded inputs against a
// reference model.  Its results are labelled `bounded` in the evidence and never counted as
// proved; a divergence is a VIOLATION with the failing operation sequence as replay.

import (
	"encoding/json"
	"fmt"
	"os"
	"os/exec"
	"path/filepath"
	"regexp"
	"strings"
	"time"
)

type boundedReport struct {
	Driver     string   `json:"driver"`
	File       string   `json:"file"`
	Bound      string   `json:"bound"`
	Violations []string `json:"violations"`
	Output     string   `json:"output_tail,omitempty"`
	Seconds    float64  `json:"seconds"`
	Label      string   `json:"label"`
}

var rePkgDir = regexp.MustCompile(`(?m)^// pkgdir: (\S+)`)
var reTestName = regexp.MustCompile(`(?m)^func (TestGovcBounded\w*)\(`)

func boundedFiles(verif, prop string) []string {
	m, _ := filepath.Glob(filepath.Join(verif, "bounded", prop+"_*_test.go"))
	return m
}

func runBoundedFile(repo, file, tier string, seed int, replayCase string) (out string, pkgDir string, err error) {
	src, err := os.ReadFile(file)
	if err != nil {
		return "", "", err
	}
	pm := rePkgDir.FindSubmatch(src)
	tm := reTestName.FindSubmatch(src)
	if pm == nil || tm == nil {
		return "", "", fmt.Errorf("%s: missing `// pkgdir:` line or TestGovcBounded function", file)
	}
	pkgDir = string(pm[1])
	tmp, err := os.MkdirTemp("", "govc-bounded")
	if err != nil {
		return "", pkgDir, err
	}
	defer os.RemoveAll(tmp)
	ov := map[string]map[string]string{"Replace": {filepath.Join(repo, pkgDir, "zz_govc_bounded_"+strings.TrimSuffix(filepath.Base(file), "_test.go")+"_test.go"): file}}
	js, _ := json.Marshal(ov)
	ovf := filepath.Join(tmp, "ov.json")
	os.WriteFile(ovf, js, 0o644)
	env := toolEnv("")
	to := "20m"
	if tier == "thorough" {
		to = "90m"
	}
	cmd := exec.Command("go", "test", "-overlay", ovf, "-vet=off", "-v", "-count=1", "-timeout", to, "-run", "^"+string(tm[1])+"$", "./"+pkgDir)
	cmd.Dir = repo
	cmd.Env = append(env, "GOVC_BOUND_TIER="+tier, fmt.Sprintf("GOVC_BOUND_SEED=%d", seed), "GOVC_BOUNDED_REPLAY="+replayCase)
	b, _ := cmd.CombinedOutput()
	return string(b), pkgDir, nil
}

// runBounded runs every driver of a property; it returns VIOLATION lines and the reports for the evidence.
func runBounded(repo, verif, prop, tier string, seed int) (viol []string, reps []boundedReport, hard []string) {
	for _, f := range boundedFiles(verif, prop) {
		t0 := time.Now()
		out, _, err := runBoundedFile(repo, f, tier, seed, "")
		rep := boundedReport{Driver: strings.TrimSuffix(filepath.Base(f), "_test.go"), File: f, Seconds: time.Since(t0).Seconds(),
			Label: "bounded (a stand-in for code outside the contracts' reach; not counted as proved)"}
		if err != nil {
			hard = append(hard, err.Error())
			continue
		}
		var msg, cs string
		for _, l := range strings.Split(out, "\n") {
			switch {
			case strings.HasPrefix(l, "GOVC-BOUNDED: VIOLATED "):
				msg = strings.TrimPrefix(l, "GOVC-BOUNDED: VIOLATED ")
			case strings.HasPrefix(l, "GOVC-BOUNDED: CASE "):
				cs = strings.TrimPrefix(l, "GOVC-BOUNDED: CASE ")
			case strings.HasPrefix(l, "GOVC-BOUNDED: driver="):
				rep.Bound = strings.TrimPrefix(l, "GOVC-BOUNDED: ")
			}
		}
		if msg != "" {
			rep.Violations = append(rep.Violations, msg)
			dir := replayDir(verif)
			os.MkdirAll(dir, 0o755)
			rp := filepath.Join(dir, prop+"-bounded-"+rep.Driver+".json")
			js, _ := json.MarshalIndent(map[string]interface{}{"property": prop, "obligation": "bounded driver " + rep.Driver, "status": "failing input found by the bounded driver",
				"what_fails": msg, "bounded_case": cs, "bounded_file": f, "replay_cmd": "govc replay " + rp}, "", " ")
			os.WriteFile(rp, js, 0o644)
			viol = append(viol, fmt.Sprintf("VIOLATION property=%s replay=%s", prop, rp))
		} else if rep.Bound == "" {
			// the driver did not finish (build failure, timeout, crash): the run is unusable, not a violation
			hard = append(hard, "bounded driver "+rep.Driver+" did not complete: "+lastLines(out, 6))
			rep.Output = lastLines(out, 12)
		}
		reps = append(reps, rep)
	}
	return
}

func lastLines(s string, n int) string {
	ls := strings.Split(strings.TrimSpace(s), "\n")
	if len(ls) > n {
		ls = ls[len(ls)-n:]
	}
	return strings.Join(ls, " | ")
}

// replayBounded re-runs a recorded failing case of a bounded driver.
func replayBounded(repo string, rec map[string]interface{}) (string, bool) {
	f, _ := rec["bounded_file"].(string)
	cs, _ := rec["bounded_case"].(string)
	out, _, err := runBoundedFile(repo, f, "quick", 0, cs)
	if err != nil {
		return err.Error(), false
	}
	return out, strings.Contains(out, "GOVC-BOUNDED: VIOLATED")
}
