package main

import (
	"sort"
	"strings"
)

// Trigger inference for the quantifiers generated from contracts.  Left to
// themselves the solvers pick large multi-level patterns that never match, so
// every forall gets explicit patterns: the innermost applications of
// uninterpreted functions (spec functions, select, map theory symbols) that
// mention the bound variables.

type sx struct {
	atom string
	kids []*sx
	s, e int // span in the source
}

func parseSx(src string) *sx {
	pos := 0
	var parse func() *sx
	skip := func() {
		for pos < len(src) && (src[pos] == ' ' || src[pos] == '\n' || src[pos] == '\t') {
			pos++
		}
	}
	parse = func() *sx {
		skip()
		if pos >= len(src) {
			return nil
		}
		start := pos
		if src[pos] == '(' {
			pos++
			n := &sx{s: start}
			for {
				skip()
				if pos >= len(src) {
					break
				}
				if src[pos] == ')' {
					pos++
					break
				}
				k := parse()
				if k == nil {
					break
				}
				n.kids = append(n.kids, k)
			}
			n.e = pos
			return n
		}
		if src[pos] == '|' {
			j := strings.IndexByte(src[pos+1:], '|')
			pos += j + 2
			return &sx{atom: src[start:pos], s: start, e: pos}
		}
		for pos < len(src) && src[pos] != ' ' && src[pos] != ')' && src[pos] != '(' && src[pos] != '\n' {
			pos++
		}
		return &sx{atom: src[start:pos], s: start, e: pos}
	}
	return parse()
}

var interpreted = map[string]bool{
	"and": true, "or": true, "not": true, "=>": true, "=": true, "ite": true, "distinct": true, "let": true,
	"forall": true, "exists": true, "!": true, "+": true, "-": true, "*": true, "<": true, "<=": true, ">": true, ">=": true,
	"store": true, "concat": true, "_": true, "as": true, "true": true, "false": true,
}

func isCandidateHead(h *sx) bool {
	if h == nil || h.atom == "" {
		return false // ((_ extract ..) x) etc.
	}
	a := h.atom
	if interpreted[a] || strings.HasPrefix(a, "bv") {
		return false
	}
	return true // select, UFs, spec functions
}

func inferPatterns(vars []string, body string) []string {
	root := parseSx(body)
	if root == nil {
		return nil
	}
	isVar := map[string]bool{}
	for _, v := range vars {
		isVar[v] = true
	}
	type cand struct {
		n    *sx
		vars map[string]bool
	}
	var cands []cand
	// returns set of bound vars in subtree, and whether subtree contains inner-bound variables
	var walk func(n *sx, inner map[string]bool) (map[string]bool, bool)
	walk = func(n *sx, inner map[string]bool) (map[string]bool, bool) {
		if n.atom != "" {
			if isVar[n.atom] {
				return map[string]bool{n.atom: true}, false
			}
			return nil, inner[n.atom]
		}
		if len(n.kids) == 0 {
			return nil, false
		}
		if h := n.kids[0]; h.atom == "forall" || h.atom == "exists" {
			in2 := map[string]bool{}
			for k := range inner {
				in2[k] = true
			}
			if len(n.kids) > 1 {
				for _, b := range n.kids[1].kids {
					if len(b.kids) > 0 {
						in2[b.kids[0].atom] = true
					}
				}
			}
			vs := map[string]bool{}
			for _, k := range n.kids[2:] {
				v, _ := walk(k, in2)
				for x := range v {
					vs[x] = true
				}
			}
			return vs, true
		}
		vs := map[string]bool{}
		bad := false
		childHasAll := false
		for i, k := range n.kids {
			if i == 0 && k.atom != "" {
				continue
			}
			v, b := walk(k, inner)
			if b {
				bad = true
			}
			for x := range v {
				vs[x] = true
			}
		}
		_ = childHasAll
		if !bad && len(vs) > 0 && isCandidateHead(n.kids[0]) && !strings.Contains(body[n.s:n.e], "(ite ") {
			cands = append(cands, cand{n, vs})
		}
		return vs, bad
	}
	walk(root, map[string]bool{})
	if len(cands) == 0 {
		return nil
	}
	// minimal candidates: drop a candidate if a candidate strictly inside it covers the same variables
	var minimal []cand
	for i, c := range cands {
		dominated := false
		for j, d := range cands {
			if i == j {
				continue
			}
			if d.n.s >= c.n.s && d.n.e <= c.n.e && (d.n.s != c.n.s || d.n.e != c.n.e) && len(d.vars) == len(c.vars) {
				dominated = true
			}
		}
		if !dominated {
			minimal = append(minimal, c)
		}
	}
	seen := map[string]bool{}
	var pats []string
	var partial []cand
	for _, c := range minimal {
		t := body[c.n.s:c.n.e]
		if len(c.vars) == len(vars) {
			if !seen[t] {
				seen[t] = true
				pats = append(pats, "("+t+")")
			}
		} else {
			partial = append(partial, c)
		}
	}
	if len(pats) == 0 && len(partial) > 0 {
		// multi-pattern covering all variables greedily
		covered := map[string]bool{}
		var parts []string
		sort.Slice(partial, func(i, j int) bool { return len(partial[i].vars) > len(partial[j].vars) })
		for _, c := range partial {
			adds := false
			for v := range c.vars {
				if !covered[v] {
					adds = true
				}
			}
			if adds {
				for v := range c.vars {
					covered[v] = true
				}
				parts = append(parts, body[c.n.s:c.n.e])
			}
		}
		if len(covered) == len(vars) {
			pats = append(pats, "("+strings.Join(parts, " ")+")")
		}
	}
	if len(pats) > 4 {
		pats = pats[:4]
	}
	return pats
}
