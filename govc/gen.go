package main

import (
	"bytes"
	"fmt"
	"go/ast"
	"go/parser"
	"go/token"
	"go/types"
	"sort"
	"strings"

	"golang.org/x/tools/go/packages"
)

// FuncInfo ties a contract to the typed function it talks about.
type FuncInfo struct {
	C           *FuncContract
	Obj         *types.Func
	Decl        *ast.FuncDecl // enclosing declaration
	Lit         *ast.FuncLit  // for anonymous functions (Name contains $)
	Pkg         *packages.Package
	TParams     string // "[V any]" or ""
	TArgs       string // "[V]" or ""
	ParamDecl   string // "r cmRow, n uint64"
	ParamNames  []string
	ResultDecl  string // "result byte" ...
	ResultNames []string
	FreeDecl    string // for func literals: captured variables "shard *lockedMap[V], cb func(V) bool"
	FreeNames   []string
	Loops       []ast.Node // loop statements in source order (not inside nested literals)
	Reassigned  map[string]bool
}

type genPkg struct {
	pkg     *packages.Package
	cf      *ContractFile
	imports map[string]string // path -> name
	buf     bytes.Buffer
	n       int
}

func (g *genPkg) qual(p *types.Package) string {
	if p == g.pkg.Types {
		return ""
	}
	g.imports[p.Path()] = p.Name()
	return p.Name()
}

func (g *genPkg) ts(t types.Type) string { return types.TypeString(t, g.qual) }

func (g *genPkg) fresh(prefix string) string {
	g.n++
	return fmt.Sprintf("gc_%s_%d", prefix, g.n)
}

func sanitize(s string) string {
	var b strings.Builder
	for _, c := range s {
		if c == '_' || (c >= 'a' && c <= 'z') || (c >= 'A' && c <= 'Z') || (c >= '0' && c <= '9') {
			b.WriteRune(c)
		} else {
			b.WriteRune('_')
		}
	}
	return b.String()
}

// findFunc locates the function or method a contract names.  Anonymous
// functions are addressed as Outer$k (k-th func literal in source order).
func findFunc(pkg *packages.Package, fc *FuncContract) (*FuncInfo, error) {
	name := fc.Name
	var lits []int
	// names like processItems$1 arrive with Name "processItems" and suffix in header; handle "$"
	if i := strings.Index(fc.Header, fc.Name+"$"); i >= 0 {
		rest := fc.Header[i+len(fc.Name):]
		for strings.HasPrefix(rest, "$") {
			j := 1
			for j < len(rest) && rest[j] >= '0' && rest[j] <= '9' {
				j++
			}
			var k int
			fmt.Sscanf(rest[1:j], "%d", &k)
			lits = append(lits, k)
			rest = rest[j:]
		}
	}
	var obj *types.Func
	if fc.Recv == "" {
		o := pkg.Types.Scope().Lookup(name)
		f, ok := o.(*types.Func)
		if !ok {
			return nil, fmt.Errorf("function %s not found in %s", name, pkg.PkgPath)
		}
		obj = f
	} else {
		o := pkg.Types.Scope().Lookup(fc.Recv)
		tn, ok := o.(*types.TypeName)
		if !ok {
			return nil, fmt.Errorf("type %s not found in %s", fc.Recv, pkg.PkgPath)
		}
		named, ok := tn.Type().(*types.Named)
		if !ok {
			return nil, fmt.Errorf("%s is not a named type", fc.Recv)
		}
		for i := 0; i < named.NumMethods(); i++ {
			if named.Method(i).Name() == name {
				obj = named.Method(i)
			}
		}
		if obj == nil {
			return nil, fmt.Errorf("method %s.%s not found", fc.Recv, name)
		}
	}
	fi := &FuncInfo{C: fc, Obj: obj, Pkg: pkg}
	for _, f := range pkg.Syntax {
		for _, d := range f.Decls {
			if fd, ok := d.(*ast.FuncDecl); ok && pkg.TypesInfo.Defs[fd.Name] == obj {
				fi.Decl = fd
			}
		}
	}
	if fi.Decl == nil || fi.Decl.Body == nil {
		return fi, nil // external (assembly) function
	}
	var body ast.Node = fi.Decl.Body
	for _, k := range lits {
		var found *ast.FuncLit
		cnt := 0
		ast.Inspect(body, func(n ast.Node) bool {
			if n == body {
				return true
			}
			if fl, ok := n.(*ast.FuncLit); ok {
				cnt++
				if cnt == k {
					found = fl
				}
				return false
			}
			return true
		})
		if found == nil {
			return nil, fmt.Errorf("func literal $%d not found in %s", k, name)
		}
		fi.Lit = found
		body = found.Body
	}
	ast.Inspect(body, func(n ast.Node) bool {
		if n == body {
			return true
		}
		switch n.(type) {
		case *ast.FuncLit:
			return false
		case *ast.ForStmt, *ast.RangeStmt:
			fi.Loops = append(fi.Loops, n)
		}
		return true
	})
	return fi, nil
}

func (g *genPkg) signature(fi *FuncInfo) {
	blankTP := false
	defer func() {
		if blankTP {
			fi.ParamDecl = strings.ReplaceAll(fi.ParamDecl, "[_]", "[V]")
			fi.ResultDecl = strings.ReplaceAll(fi.ResultDecl, "[_]", "[V]")
		}
	}()
	sig := fi.Obj.Type().(*types.Signature)
	var tps *types.TypeParamList
	if sig.RecvTypeParams() != nil && sig.RecvTypeParams().Len() > 0 {
		tps = sig.RecvTypeParams()
	} else if sig.TypeParams() != nil && sig.TypeParams().Len() > 0 {
		tps = sig.TypeParams()
	}
	if tps != nil {
		var a, b []string
		for i := 0; i < tps.Len(); i++ {
			tp := tps.At(i)
			nm := tp.Obj().Name()
			if nm == "_" {
				nm = "V" // blank receiver type parameter: the contract calls it V
				blankTP = true
			}
			a = append(a, nm+" "+g.ts(tp.Constraint()))
			b = append(b, nm)
		}
		fi.TParams = "[" + strings.Join(a, ", ") + "]"
		fi.TArgs = "[" + strings.Join(b, ", ") + "]"
	}
	var decl, names []string
	if r := sig.Recv(); r != nil {
		n := r.Name()
		if n == "" || n == "_" {
			n = "recv"
		}
		decl = append(decl, n+" "+g.ts(r.Type()))
		names = append(names, n)
	}
	if fi.Lit != nil {
		// anonymous function: its own params, plus free variables (captured) discovered below
		lsig := fi.Pkg.TypesInfo.TypeOf(fi.Lit).(*types.Signature)
		// captured variables: identifiers used in the literal that are declared in the enclosing
		// function outside the literal (including enclosing params/receiver)
		seen := map[*types.Var]bool{}
		var frees []*types.Var
		ast.Inspect(fi.Lit.Body, func(n ast.Node) bool {
			id, ok := n.(*ast.Ident)
			if !ok {
				return true
			}
			v, ok := fi.Pkg.TypesInfo.Uses[id].(*types.Var)
			if !ok || v.IsField() || seen[v] {
				return true
			}
			if v.Pkg() != fi.Pkg.Types || v.Parent() == fi.Pkg.Types.Scope() {
				return true
			}
			if v.Pos() >= fi.Lit.Pos() && v.Pos() < fi.Lit.End() {
				return true
			}
			if v.Pos() >= fi.Decl.Pos() && v.Pos() < fi.Decl.End() {
				seen[v] = true
				frees = append(frees, v)
			}
			return true
		})
		decl, names = nil, nil
		var fdecl, fnames []string
		for _, v := range frees {
			fdecl = append(fdecl, v.Name()+" "+g.ts(v.Type()))
			fnames = append(fnames, v.Name())
		}
		fi.FreeDecl = strings.Join(fdecl, ", ")
		fi.FreeNames = fnames
		sig = lsig
	}
	for i := 0; i < sig.Params().Len(); i++ {
		p := sig.Params().At(i)
		n := p.Name()
		if n == "" || n == "_" {
			n = fmt.Sprintf("p%d", i)
		}
		t := g.ts(p.Type())
		if sig.Variadic() && i == sig.Params().Len()-1 {
			t = g.ts(p.Type()) // slice type
		}
		decl = append(decl, n+" "+t)
		names = append(names, n)
	}
	fi.ParamDecl = strings.Join(decl, ", ")
	fi.ParamNames = names
	var rdecl, rnames []string
	for i := 0; i < sig.Results().Len(); i++ {
		r := sig.Results().At(i)
		n := r.Name()
		if n == "" || n == "_" {
			if sig.Results().Len() == 1 {
				n = "result"
			} else {
				n = fmt.Sprintf("result%d", i)
			}
		}
		rdecl = append(rdecl, n+" "+g.ts(r.Type()))
		rnames = append(rnames, n)
	}
	fi.ResultDecl = strings.Join(rdecl, ", ")
	fi.ResultNames = rnames
}

func joinDecl(parts ...string) string {
	var out []string
	for _, p := range parts {
		if strings.TrimSpace(p) != "" {
			out = append(out, p)
		}
	}
	return strings.Join(out, ", ")
}

// freeLocals returns identifiers of the (rewritten) expression that are neither
// bound inside it nor declared in `known`.
func freeIdents(expr string) ([]string, error) {
	e, err := parser.ParseExpr(expr)
	if err != nil {
		return nil, fmt.Errorf("parse %q: %v", expr, err)
	}
	bound := map[string]int{}
	seen := map[string]bool{}
	var out []string
	var walk func(n ast.Node)
	walk = func(n ast.Node) {
		switch x := n.(type) {
		case nil:
			return
		case *ast.Ident:
			if bound[x.Name] == 0 && !seen[x.Name] {
				seen[x.Name] = true
				out = append(out, x.Name)
			}
		case *ast.SelectorExpr:
			walk(x.X)
		case *ast.KeyValueExpr:
			walk(x.Value)
		case *ast.FuncLit:
			var names []string
			for _, f := range x.Type.Params.List {
				for _, nm := range f.Names {
					names = append(names, nm.Name)
					bound[nm.Name]++
				}
				walk(f.Type)
			}
			ast.Inspect(x.Body, func(m ast.Node) bool {
				if m == nil {
					return false
				}
				if _, ok := m.(*ast.BlockStmt); ok {
					return true
				}
				if rs, ok := m.(*ast.ReturnStmt); ok {
					for _, r := range rs.Results {
						walk(r)
					}
					return false
				}
				return true
			})
			for _, nm := range names {
				bound[nm]--
			}
		default:
			ast.Inspect(n, func(m ast.Node) bool {
				if m == n {
					return true
				}
				if m == nil {
					return false
				}
				walk(m)
				return false
			})
		}
	}
	walk(e)
	return out, nil
}

// localVarType finds the type of a local variable `name` of the function,
// preferring the declaration whose scope contains pos.
func localVar(fi *FuncInfo, name string, pos token.Pos) *types.Var {
	var body ast.Node = fi.Decl
	if fi.Lit != nil {
		body = fi.Lit
	}
	var best *types.Var
	bestIn := false
	for id, obj := range fi.Pkg.TypesInfo.Defs {
		v, ok := obj.(*types.Var)
		if !ok || id.Name != name || v.IsField() {
			continue
		}
		if id.Pos() < body.Pos() || id.Pos() >= body.End() {
			continue
		}
		sc := v.Parent()
		in := sc != nil && sc.Contains(pos)
		switch {
		case best == nil:
			best, bestIn = v, in
		case in && !bestIn:
			best, bestIn = v, in
		case in && bestIn && best.Parent().Contains(v.Pos()):
			best = v // innermost enclosing declaration
		case !in && !bestIn && v.Pos() < best.Pos():
			best = v
		}
	}
	return best
}

func (g *genPkg) emitBoolFunc(name, tparams, decl, expr string, line int, what string) {
	fmt.Fprintf(&g.buf, "// %s (contract line %d)\nfunc %s%s(%s) bool { return %s }\n", what, line, name, tparams, decl, rewriteExpr(expr))
}

func (g *genPkg) genFunc(fi *FuncInfo, specNames map[string]bool) error {
	g.signature(fi)
	fc := fi.C
	id := sanitize(fc.Recv + "_" + strings.ReplaceAll(strings.Fields(strings.TrimPrefix(fc.Header, "func"))[0], "$", "S") + "_" + fc.Name)
	_ = id
	base := sanitize(fc.Recv + "_" + fc.Name)
	if fi.Lit != nil {
		base += "_lit"
	}
	pre := joinDecl(fi.FreeDecl, fi.ParamDecl)
	post := joinDecl(fi.FreeDecl, fi.ParamDecl, fi.ResultDecl)
	for _, c := range fc.Requires {
		c.GoName = g.fresh(base + "_req")
		g.emitBoolFunc(c.GoName, fi.TParams, pre, c.Expr, c.Line, "requires")
	}
	for _, c := range fc.Ensures {
		c.GoName = g.fresh(base + "_ens")
		// a postcondition may mention local variables of the body: their values at the return
		// (such a clause is checked on the body but not offered to callers)
		extra := ""
		c.Locals = nil
		if fi.Decl != nil && fi.Decl.Body != nil {
			if ids, err := freeIdents(rewriteExpr(c.Expr)); err == nil {
				isName := func(decl, n string) bool {
					for _, d := range strings.Split(decl, ", ") {
						if f := strings.Fields(d); len(f) > 0 && f[0] == n {
							return true
						}
					}
					return false
				}
				for _, n := range ids {
					if strings.HasPrefix(n, "gc") || isName(post, n) || specNames[n] || types.Universe.Lookup(n) != nil || g.pkg.Types.Scope().Lookup(n) != nil {
						continue
					}
					if _, isImp := importName(g, n); isImp {
						continue
					}
					var body ast.Node = fi.Decl.Body
					if fi.Lit != nil {
						body = fi.Lit.Body
					}
					if v := localVar(fi, n, body.End()-1); v != nil {
						extra = joinDecl(extra, n+" "+g.ts(v.Type()))
						c.Locals = append(c.Locals, n)
					}
				}
			}
		}
		g.emitBoolFunc(c.GoName, fi.TParams, joinDecl(post, extra), c.Expr, c.Line, "ensures")
	}
	if fc.LockOf != nil {
		fc.LockOf.GoName = g.fresh(base + "_lockof")
		fmt.Fprintf(&g.buf, "func %s%s(%s) any { return %s }\n", fc.LockOf.GoName, fi.TParams, pre, rewriteExpr(fc.LockOf.Expr))
	}
	for _, c := range fc.PanicsIf {
		c.GoName = g.fresh(base + "_panics")
		g.emitBoolFunc(c.GoName, fi.TParams, pre, c.Expr, c.Line, "panics_if")
	}
	for _, c := range fc.Assumes {
		c.GoName = g.fresh(base + "_asm")
		g.emitBoolFunc(c.GoName, fi.TParams, post, c.Expr, c.Line, "assumes")
	}
	known := map[string]bool{}
	for _, n := range fi.ParamNames {
		known[n] = true
	}
	for _, n := range fi.FreeNames {
		known[n] = true
	}
	// parameters that the body reassigns: inside loop and anchor clauses their name
	// denotes the current value and <name>0 the entry value
	reassigned := map[string]bool{}
	if fi.Decl != nil && fi.Decl.Body != nil {
		var body ast.Node = fi.Decl.Body
		if fi.Lit != nil {
			body = fi.Lit.Body
		}
		mark := func(e ast.Expr) {
			if id, ok := e.(*ast.Ident); ok && known[id.Name] {
				if v, ok := fi.Pkg.TypesInfo.ObjectOf(id).(*types.Var); ok && !v.IsField() {
					for _, n := range fi.ParamNames {
						if n == id.Name {
							reassigned[n] = true
						}
					}
				}
			}
		}
		ast.Inspect(body, func(n ast.Node) bool {
			switch x := n.(type) {
			case *ast.AssignStmt:
				if x.Tok != token.DEFINE {
					for _, l := range x.Lhs {
						mark(l)
					}
				}
			case *ast.IncDecStmt:
				mark(x.X)
			}
			return true
		})
	}
	preLoop := pre
	if len(reassigned) > 0 {
		var parts []string
		for _, d := range strings.Split(pre, ", ") {
			nt := strings.SplitN(d, " ", 2)
			if len(nt) == 2 && reassigned[nt[0]] {
				parts = append(parts, nt[0]+"0 "+nt[1])
				delete(known, nt[0])
			} else {
				parts = append(parts, d)
			}
		}
		preLoop = strings.Join(parts, ", ")
	}
	fi.Reassigned = reassigned
	var anchorPos token.Pos
	loopDecl := func(k int, expr string) (string, []string, error) {
		if k != 0 && (k < 1 || k > len(fi.Loops)) {
			return "", nil, fmt.Errorf("%s: loop %d does not exist (function has %d loops)", fc.Key(), k, len(fi.Loops))
		}
		ids, err := freeIdents(rewriteExpr(expr))
		if err != nil {
			return "", nil, err
		}
		var decl, locals []string
		var lpos token.Pos
		if k == 0 {
			lpos = anchorPos
		} else {
			switch l := fi.Loops[k-1].(type) {
			case *ast.ForStmt:
				lpos = l.Body.Pos()
			case *ast.RangeStmt:
				lpos = l.Body.Pos()
			}
		}
		for _, n := range ids {
			if strings.HasSuffix(n, "0") && reassigned[strings.TrimSuffix(n, "0")] {
				continue
			}
			if known[n] || strings.HasPrefix(n, "gc") {
				continue
			}
			if strings.Contains(","+strings.Trim(strings.ReplaceAll(fi.TArgs, " ", ""), "[]")+",", ","+n+",") {
				continue // a type parameter
			}
			if n == "rangeindex" {
				decl = append(decl, "rangeindex int")
				locals = append(locals, n)
				continue
			}
			if n == "rangecount" {
				// map range loops: the number of entries enumerated so far
				decl = append(decl, "rangecount int")
				locals = append(locals, n)
				continue
			}
			// a local variable shadows package-level and predeclared names
			if v := localVar(fi, n, lpos); v != nil {
				decl = append(decl, n+" "+g.ts(v.Type()))
				locals = append(locals, n)
				continue
			}
			if specNames[n] || types.Universe.Lookup(n) != nil || g.pkg.Types.Scope().Lookup(n) != nil {
				continue
			}
			if _, isImp := importName(g, n); isImp {
				continue
			}
			return "", nil, fmt.Errorf("%s loop %d: identifier %q is neither a parameter, a package-level name nor a local variable", fc.Key(), k, n)
		}
		return strings.Join(decl, ", "), locals, nil
	}
	var ks []int
	for k := range fc.LoopInv {
		ks = append(ks, k)
	}
	sort.Ints(ks)
	for _, k := range ks {
		for _, c := range fc.LoopInv[k] {
			d, locals, err := loopDecl(k, c.Expr)
			if err != nil {
				return err
			}
			c.Locals = locals
			c.GoName = g.fresh(fmt.Sprintf("%s_loop%d_inv", base, k))
			g.emitBoolFunc(c.GoName, fi.TParams, joinDecl(preLoop, d), c.Expr, c.Line, fmt.Sprintf("loop %d invariant", k))
		}
	}
	for k, c := range fc.LoopDec {
		d, locals, err := loopDecl(k, c.Expr)
		if err != nil {
			return err
		}
		c.Locals = locals
		c.GoName = g.fresh(fmt.Sprintf("%s_loop%d_dec", base, k))
		fmt.Fprintf(&g.buf, "func %s%s(%s) int { return int(%s) }\n", c.GoName, fi.TParams, joinDecl(preLoop, d), rewriteExpr(c.Expr))
	}
	for _, a := range fc.Anchors {
		// position of the k-th call of the callee in source order
		anchorPos = token.NoPos
		cnt := 0
		var body ast.Node = fi.Decl.Body
		if fi.Lit != nil {
			body = fi.Lit.Body
		}
		ast.Inspect(body, func(n ast.Node) bool {
			if n != body {
				if _, ok := n.(*ast.FuncLit); ok {
					return false
				}
			}
			ce, ok := n.(*ast.CallExpr)
			if !ok {
				return true
			}
			name := ""
			switch f := ce.Fun.(type) {
			case *ast.Ident:
				name = f.Name
			case *ast.SelectorExpr:
				name = f.Sel.Name
			}
			if name == a.Callee {
				cnt++
				if cnt == a.Ord || (a.Ord == 0 && cnt == 1) {
					anchorPos = ce.Pos()
				}
			}
			return true
		})
		if anchorPos == token.NoPos && a.Ord == 0 {
			// `at call f#* ...` speaks about every call of f; with no call left it says nothing
			a.C.GoName = ""
			continue
		}
		if anchorPos == token.NoPos {
			return fmt.Errorf("%s: call %s#%d not found", fc.Key(), a.Callee, a.Ord)
		}
		a.Pos = anchorPos
		d, locals, err := loopDecl(0, a.C.Expr)
		if err != nil {
			return err
		}
		a.C.Locals = locals
		a.C.GoName = g.fresh(base + "_assert")
		g.emitBoolFunc(a.C.GoName, fi.TParams, joinDecl(preLoop, d), a.C.Expr, a.C.Line, "assert at call "+a.Callee)
	}
	for lab, cs := range fc.LabelInv {
		for _, c := range cs {
			c.GoName = g.fresh(base + "_label_" + sanitize(lab))
			g.emitBoolFunc(c.GoName, fi.TParams, joinDecl(pre, "AX, BX, CX, DX, BP, SI, DI, R8, R9, R10, R11 uint64"), c.Expr, c.Line, "label invariant")
		}
	}
	emitMod := func(m *ModItem, extra string) {
		m.GoName = g.fresh(base + "_mod")
		ex := rewriteExpr(m.Expr)
		if !m.All {
			ex = "&" + ex
		}
		fmt.Fprintf(&g.buf, "func %s%s(%s) any { return %s }\n", m.GoName, fi.TParams, joinDecl(pre, extra), ex)
	}
	for _, m := range fc.Modifies {
		emitMod(m, "")
	}
	for k, ms := range fc.LoopMod {
		for _, m := range ms {
			d, _, err := loopDecl(k, m.Expr)
			if err != nil {
				return err
			}
			emitMod(m, d)
		}
	}
	return nil
}

func importName(g *genPkg, n string) (string, bool) {
	for _, imp := range g.cf.Imports {
		p := strings.Trim(imp, "\"")
		if i := strings.LastIndex(p, "/"); i >= 0 {
			p = p[i+1:]
		}
		if p == n {
			return p, true
		}
	}
	for _, nm := range g.imports {
		if nm == n {
			return nm, true
		}
	}
	return "", false
}

// generate produces the Go source of the clause functions of one package.
func generate(pkg *packages.Package, cf *ContractFile) (string, map[string]*FuncInfo, error) {
	g := &genPkg{pkg: pkg, cf: cf, imports: map[string]string{}}
	infos := map[string]*FuncInfo{}
	specNames := map[string]bool{}
	for _, s := range cf.Specs {
		bare := s.Name
		if i := strings.Index(bare, "["); i >= 0 {
			bare = bare[:i]
		}
		specNames[bare] = true
		specNames[s.Name] = true
		fmt.Fprintf(&g.buf, "// spec (contract line %d)\nfunc %s(%s) %s { return %s }\n", s.Line, s.Name, s.Params, s.Ret, rewriteExpr(s.Expr))
	}
	for _, d := range cf.Decls {
		fmt.Fprintf(&g.buf, "%s\n", d)
	}
	for _, l := range cf.Lemmas {
		l.GoName = "gc_lemma_" + sanitize(l.Name)
		fmt.Fprintf(&g.buf, "// lemma (contract line %d)\nfunc %s(%s) bool { return %s }\n", l.Line, l.GoName, l.Params, rewriteExpr(l.Expr))
	}
	for _, li := range cf.LockInvs {
		o := pkg.Types.Scope().Lookup(li.Type)
		tn, ok := o.(*types.TypeName)
		if !ok {
			return "", nil, fmt.Errorf("lockinv: type %s not found", li.Type)
		}
		named := tn.Type().(*types.Named)
		tparams, targs := "", ""
		if named.TypeParams() != nil && named.TypeParams().Len() > 0 {
			var a, b []string
			for i := 0; i < named.TypeParams().Len(); i++ {
				tp := named.TypeParams().At(i)
				a = append(a, tp.Obj().Name()+" "+g.ts(tp.Constraint()))
				b = append(b, tp.Obj().Name())
			}
			tparams = "[" + strings.Join(a, ", ") + "]"
			targs = "[" + strings.Join(b, ", ") + "]"
		}
		li.GoName = g.fresh("lockinv_" + sanitize(li.Type+"_"+li.Mutex))
		fmt.Fprintf(&g.buf, "func %s%s(%s *%s%s) bool { return %s }\n", li.GoName, tparams, li.Param, li.Type, targs, rewriteExpr(li.Expr))
		if li.Rely != "" {
			li.RelyGo = g.fresh("rely_" + sanitize(li.Type))
			fmt.Fprintf(&g.buf, "func %s%s(%s *%s%s) bool { return %s }\n", li.RelyGo, tparams, li.Param, li.Type, targs, rewriteExpr(li.Rely))
		}
		for _, m := range li.Guards {
			m.GoName = g.fresh("guard_" + sanitize(li.Type))
			ex := rewriteExpr(m.Expr)
			if !m.All {
				ex = "&" + ex
			}
			fmt.Fprintf(&g.buf, "func %s%s(%s *%s%s) any { return %s }\n", m.GoName, tparams, li.Param, li.Type, targs, ex)
		}
	}
	for _, ci := range cf.ChanInvs {
		ci.GoName = g.fresh("chaninv")
		fmt.Fprintf(&g.buf, "func %s%s(%s %s) bool { return %s }\n", ci.GoName, ci.TParams, ci.Param, ci.Elem, rewriteExpr(ci.Expr))
	}
	var okFuncs []*FuncContract
	for _, fc := range cf.Funcs {
		// A contract that no longer matches the tree (function renamed, call site or loop of
		// an anchor gone) is dropped and recorded: the obligations it used to generate are then
		// missing, which `check` reports for exactly the properties that had locked them.
		mark := g.buf.Len()
		fi, err := findFunc(pkg, fc)
		if err == nil {
			err = g.genFunc(fi, specNames)
		}
		if err != nil {
			g.buf.Truncate(mark)
			if cf.Broken == nil {
				cf.Broken = map[string]string{}
			}
			cf.Broken[fc.Key()] = err.Error()
			continue
		}
		okFuncs = append(okFuncs, fc)
		key := fc.Key()
		if fi.Lit != nil {
			key = fc.Pkg + ":" + strings.TrimSpace(strings.SplitN(strings.TrimPrefix(fc.Header, "func"), "(", 2)[0])
			// recompute precise key with $ suffixes
			key = fc.Pkg + ":" + litKey(fc)
		}
		infos[key] = fi
	}
	cf.Funcs = okFuncs
	var hdr strings.Builder
	fmt.Fprintf(&hdr, "package %s\n\nimport (\n", pkg.Types.Name())
	seen := map[string]bool{"time": true}
	fmt.Fprintf(&hdr, "\t\"time\"\n")
	for _, imp := range cf.Imports {
		if strings.Trim(imp, "\"") == "time" {
			continue
		}
		fmt.Fprintf(&hdr, "\t%s\n", imp)
		seen[strings.Trim(imp, "\"")] = true
	}
	body := g.buf.String()
	for p, n := range g.imports {
		if !seen[p] && strings.Contains(body, n+".") {
			fmt.Fprintf(&hdr, "\t%q\n", p)
		}
	}
	fmt.Fprintf(&hdr, ")\n%s\n", gcPrelude)
	return hdr.String() + body, infos, nil
}

// litKey renders "Recv.Name$1$2".
func litKey(fc *FuncContract) string {
	h := fc.Header
	i := strings.Index(h, fc.Name+"$")
	suffix := ""
	if i >= 0 {
		rest := h[i+len(fc.Name):]
		j := 0
		for j < len(rest) && (rest[j] == '$' || (rest[j] >= '0' && rest[j] <= '9')) {
			j++
		}
		suffix = rest[:j]
	}
	if fc.Recv != "" {
		return fc.Recv + "." + fc.Name + suffix
	}
	return fc.Name + suffix
}
