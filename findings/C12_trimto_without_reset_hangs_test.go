package z

import (
	"testing"
	"time"
)

// Finding (C12): TrimTo frees the chunk the bump pointer is in; without a Reset the next
// Allocate takes the slow path from a freed (empty) chunk and addBufferAt doubles a page size of 0
// forever, holding the mutex.  Put this file into /repo/z: fails on the parent of the fix, passes after.
func TestFindingTrimToWithoutResetHangs(t *testing.T) {
	a := NewAllocator(1024, "finding")
	a.Allocate(1000)
	a.Allocate(100) // moves on to a second chunk
	a.TrimTo(1025)  // keeps the first chunk, frees the second one
	done := make(chan []byte, 1)
	go func() { done <- a.Allocate(10) }()
	select {
	case b := <-done:
		if len(b) != 10 {
			t.Fatalf("Allocate(10) returned %d bytes", len(b))
		}
	case <-time.After(3 * time.Second):
		t.Fatal("Allocate(10) after TrimTo does not return")
	}
}
