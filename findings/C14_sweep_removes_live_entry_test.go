package ristretto

import (
	"testing"
	"time"
)

// The sweep must not remove an entry that was re-written with a later TTL after
// the sweep looked at it (property C14).  The schedule is pinned by holding the
// policy mutex: the old sweep has already read the (expired) expiration when it
// blocks in policy.Cost; the re-write lands; the sweep then deletes the new entry.
func TestZZSweepRemovesRewrittenEntry(t *testing.T) {
	old := bucketDurationSecs
	bucketDurationSecs = 1
	defer func() { bucketDurationSecs = old }()
	c, err := NewCache(&Config[int, int]{NumCounters: 100, MaxCost: 100, BufferItems: 64, IgnoreInternalCost: true, TtlTickerDurationInSec: 3600})
	if err != nil {
		t.Fatal(err)
	}
	defer c.Close()
	if !c.SetWithTTL(1, 111, 1, time.Second) {
		t.Fatal("set dropped")
	}
	c.Wait()
	time.Sleep(2200 * time.Millisecond)
	c.cachePolicy.Lock()
	done := make(chan struct{})
	go func() {
		c.storedItems.Cleanup(c.cachePolicy, c.onEvict)
		close(done)
	}()
	time.Sleep(300 * time.Millisecond)
	c.SetWithTTL(1, 222, 1, time.Hour)
	c.cachePolicy.Unlock()
	<-done
	c.Wait()
	if v, ok := c.Get(1); !ok || v != 222 {
		t.Fatalf("entry re-written with a one hour TTL was removed by the sweep: Get = (%v, %v)", v, ok)
	}
}

// An entry re-written WITHOUT a TTL after its bucket was picked up must survive too.
func TestZZSweepRemovesEntryRewrittenWithoutTTL(t *testing.T) {
	old := bucketDurationSecs
	bucketDurationSecs = 1
	defer func() { bucketDurationSecs = old }()
	c, err := NewCache(&Config[int, int]{NumCounters: 100, MaxCost: 100, BufferItems: 64, IgnoreInternalCost: true, TtlTickerDurationInSec: 3600})
	if err != nil {
		t.Fatal(err)
	}
	defer c.Close()
	c.SetWithTTL(1, 111, 1, time.Second)
	c.SetWithTTL(2, 333, 1, time.Second) // same bucket: the sweep blocks on it first or second
	c.Wait()
	time.Sleep(2200 * time.Millisecond)
	// hold both shard locks so that the sweep has grabbed the bucket but checked no key yet
	sm := c.storedItems.(*shardedMap[int])
	sm.shards[1].Lock()
	sm.shards[2].Lock()
	done := make(chan struct{})
	go func() {
		c.storedItems.Cleanup(c.cachePolicy, c.onEvict)
		close(done)
	}()
	time.Sleep(300 * time.Millisecond)
	// what lockedMap.Update does for Set(1, 222) without TTL (the bucket is already detached)
	it := sm.shards[1].data[1]
	it.value, it.expiration = 222, time.Time{}
	sm.shards[1].data[1] = it
	sm.shards[2].Unlock()
	sm.shards[1].Unlock()
	<-done
	if v, ok := c.Get(1); !ok || v != 222 {
		t.Fatalf("entry re-written without TTL was removed by the sweep: Get = (%v, %v)", v, ok)
	}
}
