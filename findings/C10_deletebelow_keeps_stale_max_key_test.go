package z

import "testing"

// Finding (C10): node.compact keeps the largest key of a leaf even when its value is below the
// threshold (so that the parent's routing key stays valid) but left the stale value in place.
// Unless the whole leaf became empty, Get and IterateKV kept returning a pair that DeleteBelow
// was supposed to remove.  Found by the bounded tree driver (bounded/C10_tree_test.go).
// Put this file into /repo/z to run it: fails on the parent of the fix commit, passes after it.
func TestFindingDeleteBelowKeepsStaleLeafMaxKey(t *testing.T) {
	tr := NewTree("finding")
	defer func() { _ = tr.Close() }()
	const n = 4000
	for k := uint64(1); k <= n; k++ {
		v := uint64(20)
		if k%2 == 0 {
			v = 5
		}
		tr.Set(k, v)
	}
	tr.DeleteBelow(10) // removes exactly the keys whose value is below 10: the even ones
	var stale []uint64
	for k := uint64(2); k <= n; k += 2 {
		if v := tr.Get(k); v != 0 {
			stale = append(stale, k)
		}
	}
	iterStale := 0
	tr.IterateKV(func(k, v uint64) uint64 {
		if v < 10 {
			iterStale++
		}
		return 0
	})
	if len(stale) != 0 || iterStale != 0 {
		t.Fatalf("after DeleteBelow(10): %d keys with value 5 are still readable (first %v); IterateKV still yields %d pairs with a value below 10", len(stale), stale[:min(len(stale), 8)], iterStale)
	}
}
