package ristretto

import (
	"sync/atomic"
	"testing"
	"time"
)

// An item that is applied by the background goroutine after the sweep has already
// passed the bucket of its expiration time must still be reclaimed (property C14).
// The applier is stalled by holding the policy mutex while the sweep frontier moves on.
func TestZZLateItemIsNeverReclaimed(t *testing.T) {
	old := bucketDurationSecs
	bucketDurationSecs = 1
	defer func() { bucketDurationSecs = old }()
	var evicted int32
	c, err := NewCache(&Config[int, int]{NumCounters: 100, MaxCost: 100, BufferItems: 64, IgnoreInternalCost: true, TtlTickerDurationInSec: 3600,
		OnEvict: func(*Item[int]) { atomic.AddInt32(&evicted, 1) }})
	if err != nil {
		t.Fatal(err)
	}
	defer c.Close()
	c.cachePolicy.Lock() // the applier will block in cachePolicy.Add
	if !c.SetWithTTL(1, 111, 1, time.Second) {
		t.Fatal("set dropped")
	}
	time.Sleep(3200 * time.Millisecond)
	c.storedItems.Cleanup(c.cachePolicy, c.onEvict) // nothing to sweep yet, but the frontier advances past the item's bucket
	c.cachePolicy.Unlock()
	c.Wait() // the item is applied now, with an expiration that is already in a swept bucket
	time.Sleep(2200 * time.Millisecond)
	c.storedItems.Cleanup(c.cachePolicy, c.onEvict)
	c.storedItems.Cleanup(c.cachePolicy, c.onEvict)
	if got := c.RemainingCost(); got != 100 {
		t.Fatalf("expired item still holds capacity after two sweeps: RemainingCost = %d, want 100 (evictions reported: %d)", got, atomic.LoadInt32(&evicted))
	}
}
