package ristretto
import "testing"
func TestZZDupSample(t *testing.T) {
	e := newSampledLFU(100)
	e.add(7, 1)
	in := []*policyPair{{7, 1}}
	out := e.fillSample(in)
	for i := range out { for j := i+1; j < len(out); j++ { if out[i].key == out[j].key { t.Fatalf("duplicate key %d in sample %d/%d", out[i].key, i, j) } } }
}
func TestZZDupVictims(t *testing.T) {
	dups := 0
	for run := 0; run < 200; run++ {
		p := newDefaultPolicy[int](100, 60)
		for k := uint64(1); k <= 6; k++ { p.Add(k, 10) }
		victims, _ := p.Add(100, 40)
		seen := map[uint64]bool{}
		for _, v := range victims { if seen[v.Key] { dups++; break }; seen[v.Key] = true }
		p.Close()
	}
	if dups > 0 { t.Fatalf("policy.Add returned a victim twice in %d of 200 runs", dups) }
}
