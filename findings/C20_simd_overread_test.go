package simd
import "testing"
func TestZZOverread(t *testing.T) {
	big := make([]uint64, 16)
	for i := 0; i < 10; i += 2 { big[i] = uint64(i/2 + 1) }
	big[12] = 99
	if got, want := Search(big[:10], 50), Naive(big[:10], 50); got != want { t.Fatalf("Search=%d Naive=%d", got, want) }
}
