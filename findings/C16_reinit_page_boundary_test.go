// Finding (C16): a persistent tree whose used pages end exactly at the last whole page of the file
// (254 pages in the initial 1 MB file: 32131 sequential keys) could not be reopened: Tree.reinit's frontier scan
// asked for a page that starts inside the data but does not end inside it and Tree.node panicked.
// Put this file into /repo/z: fails on the parent of fix ac87321, passes after.
package z

import (
	"os"
	"path/filepath"
	"testing"
)

// A persistent tree whose used pages end exactly at the last whole page of the file cannot be reopened.
func TestFindingReinitBoundary(t *testing.T) {
	dir, err := os.MkdirTemp("", "govc-finding")
	if err != nil {
		t.Fatal(err)
	}
	defer os.RemoveAll(dir)
	path := filepath.Join(dir, "tree.buf")
	tr, err := NewTreePersistent(path)
	if err != nil {
		t.Fatal(err)
	}
	last := (len(tr.data) / pageSize) // first page number that does not fit any more
	k := uint64(1)
	for int(tr.nextPage) < last {
		tr.Set(k, k)
		k++
	}
	t.Logf("len(data)=%d pageSize=%d nextPage=%d keys=%d", len(tr.data), pageSize, tr.nextPage, k-1)
	want := tr.Stats()
	if err := tr.Close(); err != nil {
		t.Fatal(err)
	}
	tr2, err := NewTreePersistent(path)
	if err != nil {
		t.Fatal(err)
	}
	got := tr2.Stats()
	if got.NumPages != want.NumPages || got.NumLeafKeys != want.NumLeafKeys {
		t.Fatalf("stats after reopen: got %+v want %+v", got, want)
	}
	for i := uint64(1); i < k; i++ {
		if v := tr2.Get(i); v != i {
			t.Fatalf("Get(%d) = %d after reopen", i, v)
		}
	}
	_ = tr2.Close()
}
