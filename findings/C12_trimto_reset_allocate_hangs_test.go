package z

import (
	"testing"
	"time"
)

// Finding (C12): TrimTo frees the first chunk when max is not larger than it; after the
// Reset that AllocatorPool.Get performs, the next Allocate takes the slow path and
// addBufferAt sizes the new chunk as 2*len(previous chunk) == 0, so its doubling loop
// `for pageSize < minSz { pageSize *= 2 }` never terminates (while holding the mutex).
func TestFindingTrimToThenResetAllocateHangs(t *testing.T) {
	a := NewAllocator(1024, "finding")
	a.TrimTo(512)
	a.Reset()
	done := make(chan []byte, 1)
	go func() { done <- a.Allocate(10) }()
	select {
	case b := <-done:
		if len(b) != 10 {
			t.Fatalf("Allocate(10) returned %d bytes", len(b))
		}
	case <-time.After(3 * time.Second):
		t.Fatal("Allocate(10) after TrimTo(512)+Reset() does not return: addBufferAt spins with pageSize == 0")
	}
}
