// pkgdir: z
// BOUNDED stand-in (not a proof) for the parts of C11 outside the contracts: SliceIterate,
// SliceOffsets/Slice and the sorter (SortSlice/SortSliceBetween), in calloc mode, mmap mode and
// across the automatic switch, with slice counts around the sorter's 1024-slice chunking.
package z

import (
	"bytes"
	"encoding/json"
	"fmt"
	"math/rand"
	"os"
	"sort"
	"strconv"
	"testing"
)

type gfCase struct {
	Mode     string `json:"mode"` // calloc | mmap | auto
	Capacity int    `json:"capacity"`
	Auto     int    `json:"auto_mmap_after"`
	Lens     []int  `json:"lens"`
	Seed     int64  `json:"seed"`
	Less     string `json:"less"` // bytes | len | first
	MaxSize  int    `json:"max_size"`
	// Pattern: "" = random contents; otherwise the i-th slice is the big-endian encoding of a value
	// chosen so that the input is already ordered in a particular way (comparison: bytes):
	// sorted | reverse | equal | runs (ascending runs of Run slices each, every run starting again at 0)
	Pattern string `json:"pattern,omitempty"`
	Run     int    `json:"run,omitempty"`
}

func gfPatternValue(c gfCase, i, n int) uint64 {
	switch c.Pattern {
	case "sorted":
		return uint64(i)
	case "reverse":
		return uint64(n - i)
	case "equal":
		return 7
	case "runs":
		return uint64(i % c.Run)
	}
	return 0
}

func gfLess(kind string) LessFunc {
	switch kind {
	case "len":
		return func(a, b []byte) bool { return len(a) < len(b) }
	case "first":
		return func(a, b []byte) bool {
			if len(a) == 0 || len(b) == 0 {
				return len(a) < len(b)
			}
			return a[0] < b[0]
		}
	}
	return func(a, b []byte) bool { return bytes.Compare(a, b) < 0 }
}

func gfRun(c gfCase, dir string) (msg string) {
	defer func() {
		if r := recover(); r != nil {
			msg = fmt.Sprintf("panic: %v", r)
		}
	}()
	var b *Buffer
	switch c.Mode {
	case "mmap":
		var err error
		b, err = NewBufferTmp(dir, c.Capacity)
		if err != nil {
			return "NewBufferTmp: " + err.Error()
		}
	case "auto":
		b = NewBuffer(c.Capacity, "govc").WithAutoMmap(c.Auto, dir)
	default:
		b = NewBuffer(c.Capacity, "govc")
	}
	defer func() { _ = b.Release() }()
	rng := rand.New(rand.NewSource(c.Seed))
	var want [][]byte
	for i, n := range c.Lens {
		s := make([]byte, n)
		rng.Read(s)
		if c.Pattern != "" {
			s = make([]byte, 8+i%5)
			v := gfPatternValue(c, i, len(c.Lens))
			for k := 0; k < 8; k++ {
				s[k] = byte(v >> (8 * (7 - k)))
			}
		}
		want = append(want, s)
		b.WriteSlice(s)
	}
	// what was written comes back, in order
	var got [][]byte
	if err := b.SliceIterate(func(s []byte) error { got = append(got, append([]byte{}, s...)); return nil }); err != nil {
		return "SliceIterate: " + err.Error()
	}
	var nonEmpty [][]byte
	for _, s := range want {
		if len(s) > 0 {
			nonEmpty = append(nonEmpty, s)
		}
	}
	if len(got) != len(nonEmpty) {
		return fmt.Sprintf("SliceIterate yields %d slices, %d non-empty ones were written", len(got), len(nonEmpty))
	}
	for i := range got {
		if !bytes.Equal(got[i], nonEmpty[i]) {
			return fmt.Sprintf("SliceIterate: slice %d differs from what was written", i)
		}
	}
	offs := b.SliceOffsets()
	if len(want) > 0 && len(offs) != len(want) {
		return fmt.Sprintf("SliceOffsets returns %d offsets for %d slices", len(offs), len(want))
	}
	for i, o := range offs {
		if i < len(want) {
			if s, _ := b.Slice(o); !bytes.Equal(s, want[i]) {
				return fmt.Sprintf("Slice(offsets[%d]) differs from slice %d as written", i, i)
			}
		}
	}
	// the sorter leaves a permutation ordered by less
	less := gfLess(c.Less)
	b.SortSlice(less)
	var sorted [][]byte
	for _, o := range b.SliceOffsets() {
		s, _ := b.Slice(o)
		sorted = append(sorted, append([]byte{}, s...))
	}
	if len(want) > 0 && len(sorted) != len(want) {
		return fmt.Sprintf("after SortSlice there are %d slices, %d were written", len(sorted), len(want))
	}
	for i := 1; i < len(sorted); i++ {
		if less(sorted[i], sorted[i-1]) {
			return fmt.Sprintf("after SortSlice slice %d is less than slice %d", i, i-1)
		}
	}
	key := func(xs [][]byte) []string {
		out := make([]string, len(xs))
		for i, x := range xs {
			out[i] = string(x)
		}
		sort.Strings(out)
		return out
	}
	a, d := key(want), key(sorted)
	for i := range a {
		if i < len(d) && a[i] != d[i] {
			return "after SortSlice the slices are not a permutation of what was written"
		}
	}
	return ""
}

// gfMax: a buffer limited by WithMaxSize never holds more than the limit.
func gfMax(c gfCase) (msg string) {
	b := NewBuffer(c.Capacity, "govc").WithMaxSize(c.MaxSize)
	defer func() { _ = b.Release() }()
	rng := rand.New(rand.NewSource(c.Seed))
	for i, n := range c.Lens {
		refused := func() (p bool) {
			defer func() { p = recover() != nil }()
			s := make([]byte, n)
			rng.Read(s)
			if i%2 == 0 {
				b.WriteSlice(s)
			} else {
				_, _ = b.Write(s)
			}
			return false
		}()
		if b.LenNoPadding() > c.MaxSize {
			return fmt.Sprintf("write %d (%d bytes, refused=%v): the buffer holds %d bytes, beyond its limit of %d", i, n, refused, b.LenNoPadding(), c.MaxSize)
		}
	}
	return ""
}

func TestGovcBoundedBuffer(t *testing.T) {
	dir := t.TempDir()
	if s := os.Getenv("GOVC_BOUNDED_REPLAY"); s != "" {
		var c gfCase
		if err := json.Unmarshal([]byte(s), &c); err != nil {
			t.Fatal(err)
		}
		m := ""
		if c.MaxSize > 0 {
			m = gfMax(c)
		} else {
			m = gfRun(c, dir)
		}
		if m != "" {
			fmt.Printf("GOVC-BOUNDED: VIOLATED %s\n", m)
		} else {
			fmt.Println("GOVC-BOUNDED: replay passes on this tree")
		}
		return
	}
	rounds := 1
	if os.Getenv("GOVC_BOUND_TIER") == "thorough" {
		rounds = 6
	}
	seed, _ := strconv.ParseInt(os.Getenv("GOVC_BOUND_SEED"), 10, 64)
	counts := []int{0, 1, 2, 3, 17, 1023, 1024, 1025, 2047, 2048, 2049, 3100}
	run := 0
	fail := func(c gfCase, m string) {
		js, _ := json.Marshal(c)
		fmt.Printf("GOVC-BOUNDED: VIOLATED %s\nGOVC-BOUNDED: CASE %s\n", m, js)
	}
	done := false
	for r := 0; r < rounds && !done; r++ {
		for ci, n := range counts {
			rng := rand.New(rand.NewSource(seed*31 + int64(r*1000+ci)))
			c := gfCase{Mode: []string{"calloc", "mmap", "auto"}[(ci+r)%3], Capacity: []int{1, 64, 4096}[(ci+r)%3], Auto: 1 << 12, Seed: rng.Int63(), Less: []string{"bytes", "len", "first"}[(ci/3+r)%3]}
			for i := 0; i < n; i++ {
				switch rng.Intn(10) {
				case 0:
					c.Lens = append(c.Lens, 0)
				case 1:
					c.Lens = append(c.Lens, 100+rng.Intn(900)) // larger than a small capacity
				default:
					c.Lens = append(c.Lens, 1+rng.Intn(12))
				}
			}
			run++
			if m := gfRun(c, dir); m != "" {
				fail(c, m)
				done = true
				break
			}
		}
		// inputs that are already ordered in some way, with run boundaries on and around the sorter's
		// 1024-slice chunks (a sorter that trusts "looks sorted" or mishandles chunk borders shows here)
		if r == 0 {
			type pat struct {
				p      string
				run, n int
			}
			for pi, pt := range []pat{{"sorted", 0, 2500}, {"reverse", 0, 2500}, {"equal", 0, 1500}, {"runs", 1024, 2048}, {"runs", 1024, 3072}, {"runs", 2048, 4096}, {"runs", 1023, 2100}, {"runs", 1025, 2100}, {"runs", 512, 2048}} {
				c := gfCase{Mode: []string{"calloc", "mmap"}[pi%2], Capacity: 4096, Auto: 1 << 12, Seed: int64(pi), Less: "bytes", Pattern: pt.p, Run: pt.run, Lens: make([]int, pt.n)}
				run++
				if m := gfRun(c, dir); m != "" && !done {
					fail(c, m)
					done = true
				}
			}
		}
		for ci := 0; ci < 20 && !done; ci++ {
			rng := rand.New(rand.NewSource(seed*37 + int64(r*1000+ci)))
			c := gfCase{Capacity: 16 << rng.Intn(4), MaxSize: 64 + rng.Intn(400), Seed: rng.Int63()}
			for i := 0; i < 30; i++ {
				c.Lens = append(c.Lens, rng.Intn(120))
			}
			run++
			if m := gfMax(c); m != "" {
				fail(c, m)
				done = true
			}
		}
	}
	fmt.Printf("GOVC-BOUNDED: driver=buffer cases=%d slice_counts=%v modes=calloc,mmap,auto-switch comparisons=bytes,len,first ordered_inputs=sorted,reverse,equal,runs(512,1023,1024,1025,2048) max_size_histories=20x30\n", run, counts)
}
