// pkgdir: z
// BOUNDED stand-in (not a proof) for C16: persistent trees are driven with pseudo-random
// histories of Set/DeleteBelow, closed and reopened at pseudo-random points, and compared with a
// reference map and with the statistics before the close.  Clean close only.
package z

import (
	"encoding/json"
	"fmt"
	"math"
	"math/rand"
	"os"
	"path/filepath"
	"strconv"
	"testing"
)

type grOp struct {
	Op string `json:"op"` // set | del | reopen
	K  uint64 `json:"k,omitempty"`
	V  uint64 `json:"v,omitempty"`
}

type grCase struct {
	PageSize int    `json:"page_size"`
	Ops      []grOp `json:"ops"`
}

func grRun(c grCase, dir string) (msg string) {
	ps, mk := pageSize, maxKeys
	pageSize = c.PageSize
	maxKeys = (pageSize / 16) - 1
	defer func() { pageSize, maxKeys = ps, mk }()
	path := filepath.Join(dir, "tree.buf")
	os.Remove(path)
	defer os.Remove(path)
	defer func() {
		if r := recover(); r != nil {
			msg = fmt.Sprintf("panic: %v", r)
		}
	}()
	t, err := NewTreePersistent(path)
	if err != nil {
		return "open: " + err.Error()
	}
	defer func() {
		if t != nil {
			_ = t.Close()
		}
	}()
	ref := map[uint64]uint64{}
	keys := map[uint64]bool{}
	check := func(step int, what string) string {
		for k := range keys {
			if got := t.Get(k); got != ref[k] {
				return fmt.Sprintf("after step %d (%s): Get(%d) = %d, want %d", step, what, k, got, ref[k])
			}
		}
		seen := map[uint64]int{}
		t.IterateKV(func(k, v uint64) uint64 { seen[k]++; return 0 })
		for k, v := range ref {
			if v != 0 && seen[k] != 1 {
				return fmt.Sprintf("after step %d (%s): IterateKV visited live key %d %d times", step, what, k, seen[k])
			}
		}
		for k, n := range seen {
			if ref[k] == 0 || n != 1 {
				return fmt.Sprintf("after step %d (%s): IterateKV visited key %d %d times (reference value %d)", step, what, k, n, ref[k])
			}
		}
		return ""
	}
	for i, op := range c.Ops {
		switch op.Op {
		case "set":
			t.Set(op.K, op.V)
			ref[op.K] = op.V
			keys[op.K] = true
		case "del":
			t.DeleteBelow(op.V)
			for k, v := range ref {
				if v < op.V {
					delete(ref, k)
				}
			}
		case "reopen":
			before := t.Stats()
			np, fp := t.nextPage, t.freePage
			if err := t.Close(); err != nil {
				return fmt.Sprintf("step %d: close: %v", i, err)
			}
			t = nil
			t2, err := NewTreePersistent(path)
			if err != nil {
				return fmt.Sprintf("step %d: reopen: %v", i, err)
			}
			t = t2
			after := t.Stats()
			before.Allocated, after.Allocated = 0, 0 // the mapped size may differ
			before.Occupancy, after.Occupancy = 0, 0
			if before != after {
				return fmt.Sprintf("step %d: statistics differ after reopen: before %+v after %+v", i, before, after)
			}
			if t.nextPage != np {
				return fmt.Sprintf("step %d: page frontier %d after reopen, %d before", i, t.nextPage, np)
			}
			if (t.freePage == 0) != (fp == 0) {
				return fmt.Sprintf("step %d: free-list head %d after reopen, %d before", i, t.freePage, fp)
			}
		}
		if m := check(i, op.Op); m != "" {
			return m
		}
	}
	return ""
}

func TestGovcBoundedReopen(t *testing.T) {
	dir := t.TempDir()
	if s := os.Getenv("GOVC_BOUNDED_REPLAY"); s != "" {
		var c grCase
		if err := json.Unmarshal([]byte(s), &c); err != nil {
			t.Fatal(err)
		}
		if m := grRun(c, dir); m != "" {
			fmt.Printf("GOVC-BOUNDED: VIOLATED %s\n", m)
		} else {
			fmt.Println("GOVC-BOUNDED: replay passes on this tree")
		}
		return
	}
	cases, opsPer := 60, 150
	if os.Getenv("GOVC_BOUND_TIER") == "thorough" {
		cases, opsPer = 500, 400
	}
	seed, _ := strconv.ParseInt(os.Getenv("GOVC_BOUND_SEED"), 10, 64)
	pages := []int{80, 96, 160, 512, 4096}
	run := 0
	for ci := 0; ci < cases; ci++ {
		rng := rand.New(rand.NewSource(seed*7919 + int64(ci) + 17))
		c := grCase{PageSize: pages[ci%len(pages)]}
		nk := 16 + rng.Intn(4*c.PageSize/16)
		uni := []uint64{1, math.MaxUint64 - 1}
		for len(uni) < nk {
			if rng.Intn(2) == 0 {
				uni = append(uni, uint64(rng.Intn(4*nk))+1)
			} else {
				uni = append(uni, uint64(rng.Int63())|1)
			}
		}
		ts := uint64(1)
		for len(c.Ops) < opsPer {
			switch r := rng.Intn(100); {
			case r < 82:
				ts += uint64(rng.Intn(3))
				c.Ops = append(c.Ops, grOp{Op: "set", K: uni[rng.Intn(len(uni))], V: ts + uint64(rng.Intn(4))})
			case r < 93:
				c.Ops = append(c.Ops, grOp{Op: "del", V: ts - uint64(rng.Intn(int(ts)%7+1))})
			default:
				c.Ops = append(c.Ops, grOp{Op: "reopen"})
			}
		}
		c.Ops = append(c.Ops, grOp{Op: "reopen"})
		run++
		if m := grRun(c, dir); m != "" {
			js, _ := json.Marshal(c)
			fmt.Printf("GOVC-BOUNDED: VIOLATED %s\nGOVC-BOUNDED: CASE %s\n", m, js)
			break
		}
	}
	fmt.Printf("GOVC-BOUNDED: driver=reopen cases=%d ops_per_case=%d page_sizes=%v clean-close-only\n", run, opsPer, pages)
}
