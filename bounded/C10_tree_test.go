// pkgdir: z
// BOUNDED stand-in (not a proof) for the tree layer of C10: z.Tree is driven with
// pseudo-random and adversarial operation sequences over small page sizes and compared
// with a reference map after every operation.  Bounds are printed and recorded in the evidence.
package z

import (
	"encoding/json"
	"fmt"
	"math"
	"math/rand"
	"os"
	"sort"
	"strconv"
	"testing"
)

type gbOp struct {
	Op string `json:"op"` // set | del | iter | reset
	K  uint64 `json:"k,omitempty"`
	V  uint64 `json:"v,omitempty"`
}

type gbCase struct {
	PageSize int    `json:"page_size"`
	Ops      []gbOp `json:"ops"`
}

func gbSetPage(sz int) func() {
	ps, mk := pageSize, maxKeys
	pageSize = sz
	maxKeys = (pageSize / 16) - 1
	return func() { pageSize, maxKeys = ps, mk }
}

// gbRun executes one case against the real tree and returns a description of the first divergence.
func gbRun(c gbCase, universe []uint64) (msg string) {
	defer gbSetPage(c.PageSize)()
	defer func() {
		if r := recover(); r != nil {
			msg = fmt.Sprintf("panic: %v", r)
		}
	}()
	t := NewTree("govc-bounded")
	defer func() { _ = t.Close() }()
	ref := map[uint64]uint64{}
	check := func(step int, what string) string {
		for _, k := range universe {
			if got := t.Get(k); got != ref[k] {
				return fmt.Sprintf("after step %d (%s): Get(%d) = %d, want %d", step, what, k, got, ref[k])
			}
		}
		seen := map[uint64]int{}
		bad := ""
		t.IterateKV(func(k, v uint64) uint64 {
			seen[k]++
			if ref[k] != v && bad == "" {
				bad = fmt.Sprintf("after step %d (%s): IterateKV yields (%d,%d), want value %d", step, what, k, v, ref[k])
			}
			return 0
		})
		if bad != "" {
			return bad
		}
		for k, v := range ref {
			if v != 0 && seen[k] != 1 {
				return fmt.Sprintf("after step %d (%s): IterateKV visited live key %d %d times", step, what, k, seen[k])
			}
		}
		for k, n := range seen {
			if ref[k] == 0 || n != 1 {
				return fmt.Sprintf("after step %d (%s): IterateKV visited key %d %d times (reference value %d)", step, what, k, n, ref[k])
			}
		}
		return ""
	}
	for i, op := range c.Ops {
		switch op.Op {
		case "set":
			t.Set(op.K, op.V)
			ref[op.K] = op.V
		case "del":
			t.DeleteBelow(op.V)
			for k, v := range ref {
				if v < op.V {
					delete(ref, k)
				}
			}
		case "iter":
			// rewrite every value v to v+op.V through IterateKV
			t.IterateKV(func(k, v uint64) uint64 { return v + op.V })
			for k, v := range ref {
				if v != 0 {
					ref[k] = v + op.V
				}
			}
		case "reset":
			t.Reset()
			ref = map[uint64]uint64{}
		}
		if m := check(i, op.Op); m != "" {
			return m
		}
	}
	return ""
}

func gbUniverse(rng *rand.Rand, n int) []uint64 {
	u := []uint64{1, 2, 3, math.MaxUint64 - 2, math.MaxUint64 - 1}
	for len(u) < n {
		switch rng.Intn(3) {
		case 0:
			u = append(u, uint64(rng.Intn(64))+1) // dense
		case 1:
			u = append(u, uint64(rng.Intn(1<<20))<<20+1) // spread
		default:
			u = append(u, math.MaxUint64-2-uint64(rng.Intn(64))) // near the largest legal key
		}
	}
	sort.Slice(u, func(i, j int) bool { return u[i] < u[j] })
	out := u[:0]
	for i, k := range u {
		if i == 0 || k != u[i-1] {
			out = append(out, k)
		}
	}
	return out
}

func TestGovcBoundedTree(t *testing.T) {
	if s := os.Getenv("GOVC_BOUNDED_REPLAY"); s != "" {
		var c gbCase
		if err := json.Unmarshal([]byte(s), &c); err != nil {
			t.Fatal(err)
		}
		var uni []uint64
		for _, op := range c.Ops {
			if op.Op == "set" {
				uni = append(uni, op.K)
			}
		}
		if m := gbRun(c, uni); m != "" {
			fmt.Printf("GOVC-BOUNDED: VIOLATED %s\n", m)
		} else {
			fmt.Println("GOVC-BOUNDED: replay passes on this tree")
		}
		return
	}
	cases, opsPer := 150, 120
	if os.Getenv("GOVC_BOUND_TIER") == "thorough" {
		cases, opsPer = 1500, 400
	}
	seed, _ := strconv.ParseInt(os.Getenv("GOVC_BOUND_SEED"), 10, 64)
	pages := []int{80, 96, 160, 256, 512, 4096} // 80 bytes = the smallest page that holds 4 keys
	run := 0
	for ci := 0; ci < cases; ci++ {
		rng := rand.New(rand.NewSource(seed*1000003 + int64(ci)))
		ps := pages[ci%len(pages)]
		uni := gbUniverse(rng, 24+rng.Intn(3*ps/16))
		c := gbCase{PageSize: ps}
		ts := uint64(1)
		for len(c.Ops) < opsPer {
			switch r := rng.Intn(100); {
			case r < 80:
				ts += uint64(rng.Intn(3))
				c.Ops = append(c.Ops, gbOp{Op: "set", K: uni[rng.Intn(len(uni))], V: ts + uint64(rng.Intn(4))})
			case r < 92:
				c.Ops = append(c.Ops, gbOp{Op: "del", V: ts - uint64(rng.Intn(int(ts)%7+1))})
			case r < 98:
				c.Ops = append(c.Ops, gbOp{Op: "iter", V: uint64(rng.Intn(3))})
			default:
				c.Ops = append(c.Ops, gbOp{Op: "reset"})
			}
		}
		run++
		if m := gbRun(c, uni); m != "" {
			// shrink the tail: the failing step is known
			js, _ := json.Marshal(c)
			fmt.Printf("GOVC-BOUNDED: VIOLATED %s\nGOVC-BOUNDED: CASE %s\n", m, js)
			break
		}
	}
	fmt.Printf("GOVC-BOUNDED: driver=tree cases=%d ops_per_case=%d page_sizes=%v keys_per_case<=%d\n", run, opsPer, pages, 24+3*4096/16)
}
